/* vp_rt.c -- flat-memory runtime for ir2c output (trusted base; see DESIGN.md 3.2).
 * Address = byte offset into VP_MEM.  Ghost state: per-slot liveness, heap block table, allocation counters,
 * per-thread pending exception.  No C pointers are stored in shared state.                                   */
#include "vp_rt.h"

#ifndef VP_SLOT_SHIFT
#define VP_SLOT_SHIFT 6 /* 64-byte liveness slots */
#endif
#define VP_SLOT (1UL << VP_SLOT_SHIFT)
#define VP_NSLOTS (VP_BYTES >> VP_SLOT_SHIFT)
#ifndef VP_ARENA_BASE
#define VP_ARENA_BASE 4096UL /* globals must end below this */
#endif
#ifndef VP_HEAP_BYTES
#define VP_HEAP_BYTES 4096UL /* per thread */
#endif
#ifndef VP_STACK_BYTES
#define VP_STACK_BYTES 3072UL /* per thread */
#endif
#ifndef VP_MAXBLK_SLOTS
#define VP_MAXBLK_SLOTS 8
#endif
#ifndef VP_SPURIOUS
#define VP_SPURIOUS 1
#endif
#ifndef VP_MEMCPY_MAX
#define VP_MEMCPY_MAX 256
#endif

#ifdef VP_SCALAR_MEM
/* Tier-K backend: one scalar global per word (generated vp_scalar_mem.h).  CBMC's thread encoding turns ANY read of an
 * array cell -- even at a constant index -- into shared-read events on every cell of the array; with scalars a
 * constant-address access is one event. */
#include "vp_scalar_mem.h"
#define VP_RDW(i) vp_rdw(i)
#define VP_WRW(i, v) vp_wrw((i), (v))
#else
uint64_t VP_MEM[VP_WORDS];
#define VP_RDW(i) VP_MEM[i]
#define VP_WRW(i, v) (VP_MEM[i] = (v))
#endif
void vp_initw(uint64_t i, uint64_t v) { VP_WRW(i, v); }
uint8_t vp_alive[VP_NSLOTS];   /* 0 dead / never allocated, 1 global, 2 heap, 3 stack */
uint8_t vp_blks[VP_NSLOTS];    /* at the first slot of a live heap block: its size in slots */
uint64_t vp_nalloc, vp_nfree, vp_live_blocks;

VP_THREAD_LOCAL int vp_tid;
VP_THREAD_LOCAL uint64_t vp_hp, vp_hp_end, vp_sp, vp_sp_end;
VP_THREAD_LOCAL int vp_spurious_left;
int vp_spurious_cfg = VP_SPURIOUS; /* per-query: entries may set it before vp_init() */
int vp_spurious_at = -1, vp_weak_seen; /* sequentialised queries: exactly the vp_spurious_at-th weak CAS fails spuriously (a per-query constant) */

#ifdef VP_CBMC
uint64_t nondet_u64(void);
uint8_t nondet_u8(void);
#define VP_NONDET64() nondet_u64()
#define VP_NONDETBOOL() (nondet_u8() & 1)
void vp_reach_impl(const char *msg, int dummy) {}
#else
#include <stdio.h>
#include <stdlib.h>
uint64_t vp_input[4096];
unsigned vp_input_len, vp_input_pos;
uint64_t vp_native_next(void) { return vp_input_pos < vp_input_len ? vp_input[vp_input_pos++] : 0; }
#define VP_NONDET64() vp_native_next()
#define VP_NONDETBOOL() (vp_native_next() & 1)
void vp_native_fail(const char *msg) { printf("VP-FAIL %s\n", msg); fflush(stdout); exit(3); }
void vp_native_assume_fail(void) { printf("VP-ASSUME-FALSE\n"); fflush(stdout); exit(4); }
void vp_reach_impl(const char *msg, int dummy) { printf("VP-REACH %s\n", msg); }
#endif

/* ------------------------------------------------------------------------------------------------ init */
void vp_set_thread(int tid) {
  vp_tid = tid;
  vp_hp = VP_ARENA_BASE + (uint64_t)tid * (VP_HEAP_BYTES + VP_STACK_BYTES);
  vp_hp_end = vp_hp + VP_HEAP_BYTES;
  vp_sp = vp_hp_end;
  vp_sp_end = vp_sp + VP_STACK_BYTES;
  vp_spurious_left = vp_spurious_cfg;
  vp_hb_thread_start(tid);
}

/* saved bump pointers of the two logical threads of a sequentialised schedule */
static uint64_t vp_ctx_hp[VP_NTHREADS + 1], vp_ctx_sp[VP_NTHREADS + 1];
static uint64_t vp_ctx_exc[VP_NTHREADS + 1];
static void vp_switch_ctx(int tid);

void vp_init(void) {
  VP_ASSERT(vp_globals_end <= VP_ARENA_BASE, "VP-BOUND: globals do not fit below VP_ARENA_BASE");
  VP_ASSERT(VP_ARENA_BASE + VP_NTHREADS * (VP_HEAP_BYTES + VP_STACK_BYTES) <= VP_BYTES, "VP-BOUND: VP_WORDS too small");
  vp_init_globals();
  vp_set_thread(0);
  vp_run_ctors();
}

/* ------------------------------------------------------------------------------------------------ plain memory */
static inline void vp_chk(uint64_t a, int sz) {
  VP_ASSERT(a < VP_BYTES && (a & 7) + (uint64_t)sz <= 8, "memory access out of modelled range or straddling a word");
#ifdef VP_NO_ALIVE
  VP_ASSERT(a >= 64, "null pointer dereference");
  return;
#endif
  VP_ASSERT(((a >= 64) & (a < VP_ARENA_BASE)) /* globals: always alive */ | vp_alive[(a & (VP_BYTES - 1)) >> VP_SLOT_SHIFT] != 0,
            "access to dead or unallocated memory (use after free / return / null)");
}

static inline uint64_t vp_mask(int sz) { return sz >= 8 ? ~0UL : ((1UL << (8 * sz)) - 1); }

static inline uint64_t vp_rd(uint64_t a, int sz) {
  uint64_t w = VP_RDW((a & (VP_BYTES - 1)) >> 3);
  if (sz == 8) return w;
  return (w >> ((a & 7) * 8)) & vp_mask(sz);
}

static inline void vp_wr(uint64_t a, int sz, uint64_t v) {
  uint64_t i = (a & (VP_BYTES - 1)) >> 3;
  if (sz == 8) { VP_WRW(i, v); return; }
  unsigned sh = (unsigned)((a & 7) * 8);
  uint64_t m = vp_mask(sz) << sh;
  VP_WRW(i, (VP_RDW(i) & ~m) | ((v << sh) & m));
}

#ifdef VP_HB
/* ---- happens-before ghost (C04, Tier K only): vector clocks driven by the memory orders found in the IR.
 * C[t] : thread-local clock (4 threads x 8 bit).  H[word] : release clock published at an atomic word (shadow scalar memory,
 * generated next to VP_S*).  facq/frel : clocks pending for acquire / published by release fences.  Tracked plain variables
 * (vp_hb_write/vp_hb_read, placed by the harness next to the real plain accesses) assert FastTrack's write->read and
 * write->write conditions.  Explored executions are the sequentially consistent interleavings only (stated limit). */
#define VP_HB_PK vp_pk_t
#ifdef VP_PREEMPT
/* sequentialised (Tier A) schedules: logical threads are contexts (vp_tid), clocks are 16 bit, the release-clock shadow is an array */
typedef uint16_t vp_clk_t; typedef uint64_t vp_pk_t;
#define VP_CLK_BITS 16
static vp_clk_t vp_vcs[4][4], vp_facqs[4][4], vp_frels[4][4];
#define vp_vc (vp_vcs[vp_tid & 3])
#define vp_facq (vp_facqs[vp_tid & 3])
#define vp_frel (vp_frels[vp_tid & 3])
static vp_pk_t VP_HMEM[VP_WORDS];
static inline vp_pk_t vp_hrd(uint64_t i) { return VP_HMEM[i & (VP_WORDS - 1)]; }
static inline void vp_hwr(uint64_t i, vp_pk_t v) { VP_HMEM[i & (VP_WORDS - 1)] = v; }
#else
typedef uint8_t vp_clk_t; typedef uint32_t vp_pk_t;
#define VP_CLK_BITS 8
VP_THREAD_LOCAL vp_clk_t vp_vc[4], vp_facq[4], vp_frel[4];
#endif
uint8_t vp_w_tid[4], vp_w_set[4]; vp_clk_t vp_w_clk[4];
static inline vp_pk_t vp_pack(const vp_clk_t *c) { return (vp_pk_t)c[0] | ((vp_pk_t)c[1] << VP_CLK_BITS) | ((vp_pk_t)c[2] << (2 * VP_CLK_BITS)) | ((vp_pk_t)c[3] << (3 * VP_CLK_BITS)); }
static inline vp_clk_t vp_comp(vp_pk_t p, int k) { return (vp_clk_t)(p >> (VP_CLK_BITS * k)); }
static inline vp_clk_t vp_max8(vp_clk_t a, vp_clk_t b) { return a > b ? a : b; }
#ifdef VP_PREEMPT
void vp_hb_thread_start(int tid) { if (tid == 0) vp_vcs[0][0] = 1; }
/* called by the entry when the units start: everything done so far (the prologue, on context 0) happens-before every logical thread */
void vp_hb_fork(void) {
  for (int t = 1; t < 4; t++) { for (int k = 0; k < 4; k++) { vp_vcs[t][k] = vp_vcs[0][k]; vp_facqs[t][k] = 0; vp_frels[t][k] = 0; } vp_vcs[t][t] = 1; }
}
/* ghost synchronisation of a MODELLED hand-off (stub executor mailbox, stub event): release / acquire on a ghost clock, no schedule point */
static vp_clk_t vp_gsync[4][4];
void vp_hb_sync_release(uint32_t id) { for (int k = 0; k < 4; k++) vp_gsync[id & 3][k] = vp_max8(vp_gsync[id & 3][k], vp_vc[k]); vp_vc[vp_tid & 3] = (vp_clk_t)(vp_vc[vp_tid & 3] + 1); }
void vp_hb_sync_acquire(uint32_t id) { for (int k = 0; k < 4; k++) vp_vc[k] = vp_max8(vp_vc[k], vp_gsync[id & 3][k]); }
#else
void vp_hb_thread_start(int tid) {
  for (int k = 0; k < 4; k++) { vp_vc[k] = 0; vp_facq[k] = 0; vp_frel[k] = 0; }
  vp_vc[0] = 1;       /* everything the main thread did before spawning (the prologue) happens-before the thread */
  vp_vc[tid & 3] = 1;
}
void vp_hb_fork(void) {}
void vp_hb_sync_release(uint32_t id) {}
void vp_hb_sync_acquire(uint32_t id) {}
#endif
/* rel must have been read by the caller at the very top of its atomic section: CBMC yields unconstrained values for a shared
 * variable that is first read inside a branch of an atomic section in which another branch writes it */
#define VP_HB_REL(a) vp_hrd(((a) & (VP_BYTES - 1)) >> 3)
static void vp_hb_atomic(uint64_t a, vp_pk_t rel, int is_read, int is_write, int order) {
  uint64_t i = (a & (VP_BYTES - 1)) >> 3;
  int acq = order == 2 || order == 4 || order == 5, rls = order == 3 || order == 4 || order == 5;
  if (is_read) {
    for (int k = 0; k < 4; k++) { if (acq) vp_vc[k] = vp_max8(vp_vc[k], vp_comp(rel, k)); else vp_facq[k] = vp_max8(vp_facq[k], vp_comp(rel, k)); }
  }
  if (is_write) {
    vp_clk_t n[4];
    for (int k = 0; k < 4; k++) {
      vp_clk_t mine = rls ? vp_vc[k] : vp_frel[k];                 /* relaxed write publishes only what a release fence published */
      n[k] = is_read ? vp_max8(vp_comp(rel, k), mine) : mine;     /* an RMW continues the release sequence, a store replaces it */
    }
    vp_hwr(i, vp_pack(n));
  }
  vp_vc[vp_tid & 3] = (vp_clk_t)(vp_vc[vp_tid & 3] + 1);
  VP_ASSERT(vp_vc[vp_tid & 3] != 0, "VP-BOUND: happens-before clock overflow");
}
static void vp_hb_fence(int order) {
  if (order == 2 || order == 4 || order == 5) for (int k = 0; k < 4; k++) vp_vc[k] = vp_max8(vp_vc[k], vp_facq[k]);
  if (order == 3 || order == 4 || order == 5) for (int k = 0; k < 4; k++) vp_frel[k] = vp_vc[k];
}
/* MODELLED locks (spinlock, pthread mutex in rt/vp_sync.c): lock = acquire, unlock = release on the lock word's ghost clock */
void vp_hb_lock_acquire(uint64_t a) { vp_pk_t rel = VP_HB_REL(a); for (int k = 0; k < 4; k++) vp_vc[k] = vp_max8(vp_vc[k], vp_comp(rel, k)); }
void vp_hb_lock_release(uint64_t a) {
  vp_pk_t rel = VP_HB_REL(a); vp_clk_t n[4];
  for (int k = 0; k < 4; k++) n[k] = vp_max8(vp_comp(rel, k), vp_vc[k]);
  vp_hwr((a & (VP_BYTES - 1)) >> 3, vp_pack(n));
  vp_vc[vp_tid & 3] = (vp_clk_t)(vp_vc[vp_tid & 3] + 1);
}
void vp_hb_write(uint32_t id) {
  id &= 3;
  VP_ATOMIC_BEGIN();
  if (vp_w_set[id]) VP_ASSERT(vp_w_clk[id] <= vp_vc[vp_w_tid[id] & 3], "C04 data race: two plain writes not ordered by happens-before");
  vp_w_set[id] = 1; vp_w_tid[id] = (uint8_t)vp_tid; vp_w_clk[id] = vp_vc[vp_tid & 3];
  VP_ATOMIC_END();
}
void vp_hb_read(uint32_t id) {
  id &= 3;
  VP_ATOMIC_BEGIN();
  if (vp_w_set[id]) VP_ASSERT(vp_w_clk[id] <= vp_vc[vp_w_tid[id] & 3], "C04 data race / missing visibility: a plain read is not ordered after the write by happens-before");
  VP_ATOMIC_END();
}
#define vp_hb_plain(a, w) ((void)0)
#else
#define vp_hb_plain(a, w) ((void)0)
#define vp_hb_atomic(a, rel, r, w, o) ((void)0)
#define VP_HB_PK uint32_t
#define VP_HB_REL(a) 0
#define vp_hb_fence(o) ((void)0)
void vp_hb_thread_start(int tid) {}
void vp_hb_lock_acquire(uint64_t a) {}
void vp_hb_lock_release(uint64_t a) {}
void vp_hb_fork(void) {}
void vp_hb_sync_release(uint32_t id) {}
void vp_hb_sync_acquire(uint32_t id) {}
void vp_hb_write(uint32_t id) {}
void vp_hb_read(uint32_t id) {}
#endif

uint64_t vp_ld(uint64_t a, int sz) {
  vp_chk(a, sz);
  vp_hb_plain(a, 0);
  return vp_rd(a, sz);
}

void vp_st(uint64_t a, int sz, uint64_t v) {
  vp_chk(a, sz);
  vp_hb_plain(a, 1);
  if (sz == 8) { vp_wr(a, sz, v); return; }
  VP_ATOMIC_BEGIN(); /* sub-word store = RMW of the containing word: must not lose a neighbour's update */
  vp_wr(a, sz, v);
  VP_ATOMIC_END();
}

void vp_memcpy(uint64_t d, uint64_t s, uint64_t n) {
  VP_ASSERT(n <= VP_MEMCPY_MAX, "VP-BOUND: memcpy longer than VP_MEMCPY_MAX");
  if (((d | s | n) & 7) == 0) {
    for (uint64_t i = 0; i < VP_MEMCPY_MAX && i < n; i += 8) vp_st(d + i, 8, vp_ld(s + i, 8));
  } else if (d <= s) {
    for (uint64_t i = 0; i < VP_MEMCPY_MAX && i < n; i++) vp_st(d + i, 1, vp_ld(s + i, 1));
  } else {
    for (uint64_t i = 0; i < VP_MEMCPY_MAX && i < n; i++) vp_st(d + (n - 1 - i), 1, vp_ld(s + (n - 1 - i), 1));
  }
}

void vp_memset(uint64_t d, uint8_t v, uint64_t n) {
  VP_ASSERT(n <= VP_MEMCPY_MAX, "VP-BOUND: memset longer than VP_MEMCPY_MAX");
  if (((d | n) & 7) == 0) {
    uint64_t w = 0x0101010101010101UL * v;
    for (uint64_t i = 0; i < VP_MEMCPY_MAX && i < n; i += 8) vp_st(d + i, 8, w);
  } else {
    for (uint64_t i = 0; i < VP_MEMCPY_MAX && i < n; i++) vp_st(d + i, 1, v);
  }
}

/* ------------------------------------------------------------------------------------------------ stack */
uint64_t vp_stack_save(void) {
  uint64_t old = vp_sp;
  vp_sp = (vp_sp + VP_SLOT - 1) & ~(VP_SLOT - 1); /* each frame starts on its own liveness slot */
  return old;
}

void vp_stack_restore(uint64_t old) {
  uint64_t lo = (old + VP_SLOT - 1) >> VP_SLOT_SHIFT, hi = (vp_sp + VP_SLOT - 1) >> VP_SLOT_SHIFT;
  for (uint64_t s = lo; s < hi; s++) vp_alive[s & (VP_NSLOTS - 1)] = 0;
  vp_sp = old;
}

uint64_t vp_alloca(uint64_t n, int align) {
  uint64_t al = align < 8 ? 8 : (uint64_t)align;
  uint64_t base = (vp_sp + al - 1) & ~(al - 1);
  if (n == 0) n = 1;
  uint64_t end = base + ((n + 7) & ~7UL);
  VP_ASSERT(end <= vp_sp_end, "VP-BOUND: modelled stack exhausted");
  for (uint64_t s = base >> VP_SLOT_SHIFT; s <= ((end - 1) >> VP_SLOT_SHIFT); s++) vp_alive[s & (VP_NSLOTS - 1)] = 3;
#ifdef VP_UNINIT_NONDET
  for (uint64_t i = base; i < end; i += 8) VP_WRW(i >> 3, VP_NONDET64());
#endif
  vp_sp = end;
  return base;
}

/* ------------------------------------------------------------------------------------------------ heap */
uint64_t vp_malloc(uint64_t n) {
  if (n == 0) n = 1;
  uint64_t slots = (n + VP_SLOT - 1) >> VP_SLOT_SHIFT;
  VP_ASSERT(slots <= VP_MAXBLK_SLOTS, "VP-BOUND: heap block larger than VP_MAXBLK_SLOTS");
  uint64_t base = vp_hp;
  uint64_t end = base + (slots << VP_SLOT_SHIFT);
  VP_ASSERT(end <= vp_hp_end, "VP-BOUND: modelled heap arena exhausted");
  vp_hp = end;
  for (uint64_t s = 0; s < VP_MAXBLK_SLOTS && s < slots; s++) vp_alive[((base >> VP_SLOT_SHIFT) + s) & (VP_NSLOTS - 1)] = 2;
#ifdef VP_UNINIT_NONDET
  for (uint64_t i = base; i < end; i += 8) VP_WRW(i >> 3, VP_NONDET64());
#endif
  VP_ATOMIC_BEGIN();
  vp_blks[(base >> VP_SLOT_SHIFT) & (VP_NSLOTS - 1)] = (uint8_t)slots;
  vp_nalloc++;
  vp_live_blocks++;
  VP_ATOMIC_END();
  return base;
}

void vp_free(uint64_t a) {
  if (a == 0) return;
  uint64_t s0 = (a & (VP_BYTES - 1)) >> VP_SLOT_SHIFT;
  VP_ATOMIC_BEGIN(); /* claiming the block is one step, so that a double free is caught under every interleaving */
  uint8_t slots = vp_blks[s0];
  VP_ASSERT(a < VP_BYTES && (a & (VP_SLOT - 1)) == 0 && slots != 0, "free of a pointer that is not a live heap block (double free / bad free)");
  vp_blks[s0] = 0;
  vp_nfree++;
  vp_live_blocks--;
  VP_ATOMIC_END();
  for (uint64_t s = 0; s < VP_MAXBLK_SLOTS; s++) /* no loop inside an atomic section: CBMC aborts when an unwind bound is hit there */
    if (s < slots) vp_alive[(s0 + s) & (VP_NSLOTS - 1)] = 0;
  vp_hb_plain(a, 1);
}

/* ------------------------------------------------------------------------------------------------ atomics */
/* Tier-A preemption point (DESIGN 2b): the generated harness main may define VP_PREEMPT_HOOK. */
/* Sequentialised two-unit schedules: unit B runs to completion nested inside unit A at A's vp_pre_k-th atomic
 * operation (k is a constant per query = one cube of the schedule; everything else stays symbolic).  While B runs it
 * uses thread context 1 (own arenas, own exception state is not needed: B never runs while A is unwinding). */
#ifdef VP_PREEMPT
int vp_pre_enabled, vp_pre_k, vp_pre_count, vp_pre_ran, vp_pre_inside;
void vp_unit_b(void); /* provided by the generated entry file */
static void vp_switch_ctx(int tid);
void vp_run_pending_unit(void) {
  if (!vp_pre_enabled || vp_pre_ran || vp_pre_inside) return;
  vp_pre_ran = 1;
  vp_pre_inside = 1;
  vp_switch_ctx(1);
  vp_unit_b();
  vp_switch_ctx(0);
  vp_pre_inside = 0;
}
static void vp2_point(void);
static inline void vp_preempt_point1(void) {
  if (!vp_pre_enabled || vp_pre_inside) return;
  if (vp_pre_count == vp_pre_k) vp_run_pending_unit();
  vp_pre_count++;
}
#define vp_preempt_point() do { vp_preempt_point1(); vp2_point(); } while (0)
/* ---- generalised scheduler (several pending units, each triggered at the k-th schedule point of a given context; a blocked
 * context lets the next pending unit run).  Context 0 = the outer unit, unit u runs as context u+1 with its own arenas. */
#define VP_MAXU 4
int vp2_enabled, vp2_nunits, vp2_ctx;
int vp2_u_ctx[VP_MAXU], vp2_u_k[VP_MAXU], vp2_u_ran[VP_MAXU], vp2_cnt[VP_MAXU + 1];
void vp_unit_run(int u); /* generated entry file: runs pending unit u */
static void vp2_run(int u) {
  int prev = vp2_ctx;
  vp2_u_ran[u] = 1;
  vp_switch_ctx(u + 1);
  vp2_ctx = u + 1;
  vp_unit_run(u);
  vp2_ctx = prev;
  vp_switch_ctx(prev);
}
static void vp2_point(void) {
  if (!vp2_enabled) return;
  int c = vp2_ctx;
  for (int u = 0; u < VP_MAXU; u++)
    if (u < vp2_nunits && !vp2_u_ran[u] && vp2_u_ctx[u] == c && vp2_u_k[u] == vp2_cnt[c]) vp2_run(u);
  vp2_cnt[c]++;
}
static int vp2_yield(void) {
  if (!vp2_enabled) return 0;
  for (int u = 0; u < VP_MAXU; u++)
    if (u < vp2_nunits && !vp2_u_ran[u]) { vp2_run(u); return 1; }
  return 0;
}
void vp2_run_rest(void) { while (vp2_yield()) {} }
void vp_sync_point(void) { vp_preempt_point(); }
int vp_yield_to_pending(void) {
  if (vp2_enabled) return vp2_yield();
  if (!vp_pre_enabled || vp_pre_ran || vp_pre_inside) return 0;
  vp_run_pending_unit();
  return 1;
}
int vp_sched_inner(void) { return vp2_enabled ? vp2_ctx != 0 : vp_pre_inside; }
int vp_sched_active(void) { return vp2_enabled || vp_pre_enabled; }
#else
#define vp_preempt_point() ((void)0) /* threaded (Tier K) and plain sequential modules: no hook at all */
int vp_pre_enabled, vp_pre_ran, vp_pre_inside;
void vp_run_pending_unit(void) {}
void vp_sync_point(void) {}
int vp_yield_to_pending(void) { return 0; }
int vp_sched_inner(void) { return 0; }
int vp_sched_active(void) { return 0; }
void vp2_run_rest(void) {}
#endif

uint64_t vp_atomic_load(uint64_t a, int sz, int order) {
  vp_preempt_point();
  VP_ATOMIC_BEGIN();
  VP_HB_PK hrel = VP_HB_REL(a); (void)hrel;
  vp_chk(a, sz);
  uint64_t v = vp_rd(a, sz);
  vp_hb_atomic(a, hrel, 1, 0, order);
  VP_ATOMIC_END();
  return v;
}

void vp_atomic_store(uint64_t a, int sz, uint64_t v, int order) {
  vp_preempt_point();
  VP_ATOMIC_BEGIN();
  VP_HB_PK hrel = VP_HB_REL(a); (void)hrel;
  vp_chk(a, sz);
  vp_wr(a, sz, v);
  vp_hb_atomic(a, hrel, 0, 1, order);
  VP_ATOMIC_END();
}

uint64_t vp_atomic_rmw(int op, uint64_t a, int sz, uint64_t v, int order) {
  vp_preempt_point();
  VP_ATOMIC_BEGIN();
  VP_HB_PK hrel = VP_HB_REL(a); (void)hrel;
  vp_chk(a, sz);
  uint64_t old = vp_rd(a, sz), nw = 0;
  uint64_t m = vp_mask(sz);
  switch (op) {
    case 0: nw = v; break;
    case 1: nw = old + v; break;
    case 2: nw = old - v; break;
    case 3: nw = old & v; break;
    case 4: nw = old | v; break;
    case 5: nw = old ^ v; break;
    case 6: nw = ~(old & v); break;
    case 7: nw = vp_sext(old, 8 * sz) > vp_sext(v, 8 * sz) ? old : v; break;
    case 8: nw = vp_sext(old, 8 * sz) < vp_sext(v, 8 * sz) ? old : v; break;
    case 9: nw = (old & m) > (v & m) ? old : v; break;
    case 10: nw = (old & m) < (v & m) ? old : v; break;
    default: VP_FAIL("unknown atomicrmw op");
  }
  vp_wr(a, sz, nw & m);
  vp_hb_atomic(a, hrel, 1, 1, order);
  VP_ATOMIC_END();
  return old;
}

struct vp_cas_res vp_cmpxchg(uint64_t a, int sz, uint64_t expect, uint64_t desired, int weak, int so, int fo) {
  struct vp_cas_res r;
  vp_preempt_point();
  int spurious = 0;
  if (weak && vp_spurious_left > 0 && VP_NONDETBOOL()) { vp_spurious_left--; spurious = 1; }
  if (weak && vp_spurious_at >= 0) { if (vp_weak_seen == vp_spurious_at) spurious = 1; vp_weak_seen++; }
  VP_ATOMIC_BEGIN();
  VP_HB_PK hrel = VP_HB_REL(a); (void)hrel;
  vp_chk(a, sz);
  uint64_t m = vp_mask(sz);
  r.old = vp_rd(a, sz);
  if (!spurious && r.old == (expect & m)) {
    vp_wr(a, sz, desired & m);
    vp_hb_atomic(a, hrel, 1, 1, so);
    r.ok = 1;
  } else {
    vp_hb_atomic(a, hrel, 1, 0, fo);
    r.ok = 0;
  }
  VP_ATOMIC_END();
  return r;
}

void vp_fence(int order) { vp_hb_fence(order); }

/* ------------------------------------------------------------------------------------------------ exceptions */
/* exception object layout in VP_MEM: [hdr+0] refcount, [hdr+8] type_info address, [hdr+16] destructor fn id,
 * user object at hdr+32 (keeps 16-byte alignment).  exception_ptr = { user object address }.                */
#define VP_EXC_HDR 32UL
VP_THREAD_LOCAL uint64_t vp_exc;         /* in-flight exception (user object address) or 0 */
VP_THREAD_LOCAL uint64_t vp_caught[4];   /* stack of exceptions being handled */
VP_THREAD_LOCAL int vp_ncaught;

int vp_exc_pending(void) { return vp_exc != 0; }
uint64_t vp_exc_object(void) { return vp_exc; }
uint64_t vp_exc_land(void) { uint64_t o = vp_exc; vp_exc = 0; return o; }

/* exception refcounts: atomic, but not schedule points of the sequentialised (Tier A) schedules -- they belong to the
 * modelled libstdc++ runtime, not to the code under verification */
static uint64_t vp_exc_rc(uint64_t obj, uint64_t delta) {
  VP_ATOMIC_BEGIN();
  vp_chk(obj - VP_EXC_HDR, 8);
  uint64_t old = vp_rd(obj - VP_EXC_HDR, 8);
  vp_wr(obj - VP_EXC_HDR, 8, old + delta);
  VP_ATOMIC_END();
  return old;
}
static void vp_exc_addref(uint64_t obj) { vp_exc_rc(obj, 1); }
static void vp_exc_release(uint64_t obj) {
  uint64_t old = vp_exc_rc(obj, ~0UL);
  VP_ASSERT(old != 0, "exception object refcount underflow");
  if (old == 1) {
    uint64_t dtor = vp_ld(obj - VP_EXC_HDR + 16, 8);
    if (dtor) vp_call_exc_dtor(dtor, obj);
    vp_free(obj - VP_EXC_HDR);
  }
}

uint64_t __cxa_allocate_exception(uint64_t n) {
  uint64_t h = vp_malloc(n + VP_EXC_HDR);
  vp_nalloc--; /* exception storage is not an allocation made by the library (C20 counts operator new only) */
  vp_st(h, 8, 0);
  vp_st(h + 8, 8, 0);
  vp_st(h + 16, 8, 0);
  return h + VP_EXC_HDR;
}
void __cxa_free_exception(uint64_t obj) { vp_free(obj - VP_EXC_HDR); vp_nfree--; }
void __cxa_throw(uint64_t obj, uint64_t tinfo, uint64_t dtor) {
  vp_st(obj - VP_EXC_HDR, 8, 1);
  vp_st(obj - VP_EXC_HDR + 8, 8, tinfo);
  vp_st(obj - VP_EXC_HDR + 16, 8, dtor);
  VP_ASSERT(vp_exc == 0, "throw while another exception is in flight (would call std::terminate)");
  vp_exc = obj;
}
uint32_t vp_typeid_for(uint64_t tinfo) { return (uint32_t)(tinfo >> 3) + 1; }
uint32_t vp_lp_clause(uint64_t clause) {
  if (clause == 0) return 0x7fffffff; /* catch (...) */
  uint64_t ti = vp_ld(vp_exc - VP_EXC_HDR + 8, 8);
  return clause == ti ? vp_typeid_for(ti) : 0; /* exact type match only (no base-class catch): stated limit */
}
void vp_resume(uint64_t obj) { vp_exc = obj; }
uint64_t __cxa_begin_catch(uint64_t obj) {
  VP_ASSERT(vp_ncaught < 4, "VP-BOUND: catch nesting deeper than 4");
  vp_caught[vp_ncaught++] = obj;
  if (vp_exc == obj) vp_exc = 0;
  return obj;
}
void __cxa_end_catch(void) {
  VP_ASSERT(vp_ncaught > 0, "__cxa_end_catch without handler");
  uint64_t obj = vp_caught[--vp_ncaught];
  if (vp_exc != obj) vp_exc_release(obj); /* not rethrown: drop the handler's reference */
}
void __cxa_rethrow(void) {
  VP_ASSERT(vp_ncaught > 0, "rethrow without handler");
  vp_exc = vp_caught[vp_ncaught - 1];
}
uint64_t __cxa_get_exception_ptr(uint64_t obj) { return obj; }
/* std::current_exception() -> exception_ptr (sret) */
void _ZSt17current_exceptionv(uint64_t sret) {
  uint64_t obj = vp_ncaught > 0 ? vp_caught[vp_ncaught - 1] : 0;
  if (obj) vp_exc_addref(obj);
  vp_st(sret, 8, obj);
}
void _ZNSt15__exception_ptr13exception_ptr9_M_addrefEv(uint64_t self) {
  uint64_t obj = vp_ld(self, 8);
  if (obj) vp_exc_addref(obj);
}
void _ZNSt15__exception_ptr13exception_ptr10_M_releaseEv(uint64_t self) {
  uint64_t obj = vp_ld(self, 8);
  if (obj) { vp_exc_release(obj); vp_st(self, 8, 0); }
}
/* std::rethrow_exception(exception_ptr) -- argument passed by invisible reference */
void _ZSt17rethrow_exceptionNSt15__exception_ptr13exception_ptrE(uint64_t ep) {
  uint64_t obj = vp_ld(ep, 8);
  VP_ASSERT(obj != 0, "rethrow_exception(nullptr)");
  vp_exc_addref(obj);
  VP_ASSERT(vp_exc == 0, "rethrow_exception while another exception is in flight");
  vp_exc = obj;
}
void _ZSt9terminatev(void) { VP_FAIL("std::terminate called"); }
void __cxa_pure_virtual(void) { VP_FAIL("pure virtual call"); }
void _ZNSt9exceptionD2Ev(uint64_t self) {}
void _ZNSt9exceptionD1Ev(uint64_t self) {}
void abort(void) { VP_FAIL("abort called"); }

static void vp_switch_ctx(int tid) {
  int cur = vp_tid;
  VP_ASSERT(tid >= 0 && tid < VP_NTHREADS, "VP-BOUND: more scheduler contexts than VP_NTHREADS");
  vp_ctx_hp[cur] = vp_hp; vp_ctx_sp[cur] = vp_sp; vp_ctx_exc[cur] = vp_exc;
  if (vp_ctx_hp[tid] == 0) {
    vp_set_thread(tid);
    vp_exc = 0;
  } else {
    vp_tid = tid;
    vp_hp = vp_ctx_hp[tid]; vp_sp = vp_ctx_sp[tid]; vp_exc = vp_ctx_exc[tid];
    vp_hp_end = VP_ARENA_BASE + (uint64_t)tid * (VP_HEAP_BYTES + VP_STACK_BYTES) + VP_HEAP_BYTES;
    vp_sp_end = vp_hp_end + VP_STACK_BYTES;
  }
}

/* ------------------------------------------------------------------------------------------------ operator new/delete */
uint64_t _Znwm(uint64_t n) { return vp_malloc(n); }
uint64_t _Znam(uint64_t n) { return vp_malloc(n); }
uint64_t _ZnwmSt11align_val_t(uint64_t n, uint64_t al) { return vp_malloc(n); }
void _ZdlPv(uint64_t p) { vp_free(p); }
void _ZdaPv(uint64_t p) { vp_free(p); }
void _ZdlPvm(uint64_t p, uint64_t n) { vp_free(p); }
void _ZdaPvm(uint64_t p, uint64_t n) { vp_free(p); }
void _ZdlPvSt11align_val_t(uint64_t p, uint64_t al) { vp_free(p); }
void _ZdlPvmSt11align_val_t(uint64_t p, uint64_t n, uint64_t al) { vp_free(p); }
void _ZSt17__throw_bad_allocv(void) { VP_ASSUME(0); }
void _ZSt20__throw_length_errorPKc(uint64_t s) { VP_FAIL("std::__throw_length_error"); }
void _ZSt28__throw_bad_array_new_lengthv(void) { VP_ASSUME(0); }
void _ZSt24__throw_out_of_range_fmtPKcz(uint64_t s, ...) { VP_FAIL("std::__throw_out_of_range_fmt"); }
void _ZSt25__throw_bad_function_callv(void) { VP_FAIL("std::__throw_bad_function_call"); }

/* ------------------------------------------------------------------------------------------------ harness API (vp.h) */
uint64_t vp_nd_log; /* every harness-level nondet value passes through here so that a trace lists them in call order */
uint32_t vp_nondet_u32(void) { vp_nd_log = (uint32_t)VP_NONDET64(); return (uint32_t)vp_nd_log; }
uint64_t vp_nondet_u64(void) { vp_nd_log = VP_NONDET64(); return vp_nd_log; }
uint8_t vp_nondet_u8(void) { vp_nd_log = (uint8_t)VP_NONDET64(); return (uint8_t)vp_nd_log; }
uint8_t vp_nondet_bool(void) { vp_nd_log = VP_NONDET64() & 1; return (uint8_t)vp_nd_log; }
void vp_assume(uint8_t c) { VP_ASSUME(c); }
uint64_t vp_alloc_count(void) { return vp_nalloc; }
uint64_t vp_live_count(void) { return vp_live_blocks; }
uint64_t vp_thread_id(void) { return (uint64_t)vp_tid; }
#ifndef VP_CBMC
void vp_observe(uint64_t tag, uint64_t v) { printf("VP-OBS %lu %lu\n", tag, v); }
#else
void vp_observe(uint64_t tag, uint64_t v) {}
#endif

/* ------------------------------------------------------------------------------------------------ arithmetic helpers */
#define VP_BM(bits) ((bits) >= 64 ? ~0UL : ((1UL << (bits)) - 1))
struct vp_ov_res vp_uadd_ov(uint64_t a, uint64_t b, int bits) { struct vp_ov_res r; a &= VP_BM(bits); b &= VP_BM(bits); r.v = (a + b) & VP_BM(bits); r.ov = r.v < a; return r; }
struct vp_ov_res vp_usub_ov(uint64_t a, uint64_t b, int bits) { struct vp_ov_res r; a &= VP_BM(bits); b &= VP_BM(bits); r.v = (a - b) & VP_BM(bits); r.ov = a < b; return r; }
struct vp_ov_res vp_umul_ov(uint64_t a, uint64_t b, int bits) {
  struct vp_ov_res r; a &= VP_BM(bits); b &= VP_BM(bits);
  unsigned __int128 p = (unsigned __int128)a * b; r.v = (uint64_t)p & VP_BM(bits); r.ov = p > (unsigned __int128)VP_BM(bits); return r;
}
struct vp_ov_res vp_sadd_ov(uint64_t a, uint64_t b, int bits) { struct vp_ov_res r; __int128 s = (__int128)vp_sext(a, bits) + vp_sext(b, bits); r.v = (uint64_t)s & VP_BM(bits); r.ov = s != (__int128)vp_sext((uint64_t)s, bits); return r; }
struct vp_ov_res vp_ssub_ov(uint64_t a, uint64_t b, int bits) { struct vp_ov_res r; __int128 s = (__int128)vp_sext(a, bits) - vp_sext(b, bits); r.v = (uint64_t)s & VP_BM(bits); r.ov = s != (__int128)vp_sext((uint64_t)s, bits); return r; }
struct vp_ov_res vp_smul_ov(uint64_t a, uint64_t b, int bits) { struct vp_ov_res r; __int128 s = (__int128)vp_sext(a, bits) * vp_sext(b, bits); r.v = (uint64_t)s & VP_BM(bits); r.ov = s != (__int128)vp_sext((uint64_t)s, bits); return r; }
uint64_t vp_ctpop(uint64_t v, int bits) { v &= VP_BM(bits); uint64_t c = 0; for (int i = 0; i < 64; i++) c += (v >> i) & 1; return c; }
uint64_t vp_ctlz(uint64_t v, int bits) { v &= VP_BM(bits); uint64_t c = 0; for (int i = bits - 1; i >= 0; i--) { if ((v >> i) & 1) break; c++; } return c; }
uint64_t vp_cttz(uint64_t v, int bits) { v &= VP_BM(bits); uint64_t c = 0; for (int i = 0; i < bits; i++) { if ((v >> i) & 1) break; c++; } return c; }
uint64_t vp_bswap(uint64_t v, int bits) { uint64_t r = 0; for (int i = 0; i < bits / 8; i++) r |= ((v >> (8 * i)) & 0xff) << (bits - 8 - 8 * i); return r; }
uint64_t vp_abs(uint64_t v, int bits) { int64_t x = vp_sext(v, bits); return (uint64_t)(x < 0 ? -x : x) & VP_BM(bits); }
uint64_t vp_fshl(uint64_t a, uint64_t b, uint64_t c, int bits) { c %= (uint64_t)bits; if (c == 0) return a & VP_BM(bits); return ((a << c) | ((b & VP_BM(bits)) >> (bits - c))) & VP_BM(bits); }
uint64_t vp_fshr(uint64_t a, uint64_t b, uint64_t c, int bits) { c %= (uint64_t)bits; if (c == 0) return b & VP_BM(bits); return ((a << (bits - c)) | ((b & VP_BM(bits)) >> c)) & VP_BM(bits); }

/* static-storage destructors are never run by a harness (quiescence is checked by the harness itself) */
int __cxa_atexit(uint64_t fn, uint64_t arg, uint64_t dso) { return 0; }
