/* vp_sync.c -- pthread mutex / std::condition_variable / clock model for SEQUENTIALISED (Tier A) schedules.
 * Two logical threads: the outer unit and one pending inner unit (rt/vp_rt.c).  Blocking means "let the pending unit run":
 *   - lock of a held mutex: the nested schedule is infeasible (the holder cannot continue underneath) -> assume(false)
 *   - cv wait by the OUTER unit: release the mutex, run the pending unit (if any), re-acquire, return (a spurious wake-up is a
 *     legal return, the caller's predicate loop re-checks); a wait with nothing left to run can never be woken:
 *     that is reported as a deadlock / lost wake-up
 *   - cv wait by the INNER unit: it cannot complete underneath the outer one -> assume(false) (that order is covered by the
 *     query in which the roles are swapped)
 *   - timed waits additionally time out when vp_timeout_cfg says so (per-query constant: j-th timed wait of the run).  */
#include "vp_rt.h"

extern int vp_pre_enabled, vp_pre_ran, vp_pre_inside;
void vp_run_pending_unit(void);
void vp_sync_point(void); /* a schedule point of the sequentialised schedule (defined in vp_rt.c) */
int vp_timeout_at = -1, vp_timed_seen;
uint64_t vp_clock_now;

int pthread_mutex_lock(uint64_t m) {
  vp_sync_point();
  VP_ASSUME(vp_ld(m, 8) == 0);
  vp_st(m, 8, 1);
  return 0;
}
int pthread_mutex_trylock(uint64_t m) {
  vp_sync_point();
  if (vp_ld(m, 8) != 0) return 16; /* EBUSY */
  vp_st(m, 8, 1);
  return 0;
}
int pthread_mutex_unlock(uint64_t m) {
  VP_ASSERT(vp_ld(m, 8) == 1, "unlock of a mutex that is not locked");
  vp_st(m, 8, 0);
  vp_sync_point();
  return 0;
}
int pthread_mutex_init(uint64_t m, uint64_t attr) { vp_st(m, 8, 0); return 0; }
int pthread_mutex_destroy(uint64_t m) { VP_ASSERT(vp_ld(m, 8) == 0, "mutex destroyed while locked"); return 0; }

static void vp_block_on_cv(uint64_t mutex_addr) {
#ifdef VP_PREEMPT
  if (vp_pre_inside) { VP_ASSUME(0); return; }
  VP_ASSERT(vp_ld(mutex_addr, 8) == 1, "condition variable wait without holding the mutex");
  vp_st(mutex_addr, 8, 0);
  if (vp_pre_enabled && !vp_pre_ran) {
    vp_run_pending_unit();
  } else {
    VP_FAIL("deadlock: a thread blocks on a condition variable and nobody is left to wake it (lost wake-up)");
    VP_ASSUME(0);
  }
  VP_ASSUME(vp_ld(mutex_addr, 8) == 0);
  vp_st(mutex_addr, 8, 1);
#else
  VP_FAIL("VP-BOUND: blocking wait in a module built without the sequentialised scheduler");
#endif
}
/* std::condition_variable */
void _ZNSt18condition_variableC1Ev(uint64_t cv) { vp_st(cv, 8, 0); }
void _ZNSt18condition_variableC2Ev(uint64_t cv) { vp_st(cv, 8, 0); }
void _ZNSt18condition_variableD1Ev(uint64_t cv) {}
void _ZNSt18condition_variableD2Ev(uint64_t cv) {}
void _ZNSt18condition_variable10notify_oneEv(uint64_t cv) { vp_st(cv, 8, vp_ld(cv, 8) + 1); vp_sync_point(); }
void _ZNSt18condition_variable10notify_allEv(uint64_t cv) { vp_st(cv, 8, vp_ld(cv, 8) + 1); vp_sync_point(); }
/* wait(std::unique_lock<std::mutex>&): unique_lock = { mutex* _M_device; bool _M_owns } */
void _ZNSt18condition_variable4waitERSt11unique_lockISt5mutexE(uint64_t cv, uint64_t lock) {
  vp_block_on_cv(vp_ld(lock, 8));
}
/* pthread_cond_clockwait(cond, mutex, clockid, abstime) -- what libstdc++'s wait_for/wait_until reach */
int pthread_cond_clockwait(uint64_t cv, uint64_t m, uint32_t clk, uint64_t ts) {
  int fire = (vp_timeout_at >= 0 && vp_timed_seen == vp_timeout_at);
  vp_timed_seen++;
  if (fire) { /* deadline passes before anybody notifies; other threads may still run around it */
    vp_st(m, 8, 0);
    vp_sync_point();
    VP_ASSUME(vp_ld(m, 8) == 0);
    vp_st(m, 8, 1);
    vp_clock_now += 1000000000UL;
    return 110; /* ETIMEDOUT */
  }
  vp_block_on_cv(m);
  return 0;
}
int pthread_cond_timedwait(uint64_t cv, uint64_t m, uint64_t ts) { return pthread_cond_clockwait(cv, m, 0, ts); }
/* clocks: symbolic-free monotone counter (time only matters through which timed wait expires) */
int64_t _ZNSt6chrono3_V212steady_clock3nowEv(void) { vp_clock_now += 1; return (int64_t)vp_clock_now; }
int64_t _ZNSt6chrono3_V212system_clock3nowEv(void) { vp_clock_now += 1; return (int64_t)vp_clock_now; }
void _ZSt20__throw_system_errori(int e) { VP_FAIL("std::__throw_system_error"); }

/* model of yaclib::detail::Spinlock (harness/model_include): see the comment there */
void vp_spin_lock(uint64_t w, uint32_t sz) { vp_sync_point(); VP_ASSUME(vp_ld(w, (int)sz) == 0); vp_st(w, (int)sz, 1); }
void vp_spin_unlock(uint64_t w, uint32_t sz) { VP_ASSERT(vp_ld(w, (int)sz) == 1, "unlock of a spinlock that is not locked"); vp_st(w, (int)sz, 0); vp_sync_point(); }
