/* vp_sync.c -- pthread mutex / std::condition_variable / clock model for SEQUENTIALISED (Tier A) schedules.
 * Two logical threads: the outer unit and one pending inner unit (rt/vp_rt.c).  Blocking means "let the pending unit run":
 *   - lock of a held mutex: the nested schedule is infeasible (the holder cannot continue underneath) -> assume(false)
 *   - cv wait by the OUTER unit: release the mutex, run the pending unit (if any), re-acquire, return (a spurious wake-up is a
 *     legal return, the caller's predicate loop re-checks); a wait with nothing left to run can never be woken:
 *     that is reported as a deadlock / lost wake-up
 *   - cv wait by the INNER unit: it cannot complete underneath the outer one -> assume(false) (that order is covered by the
 *     query in which the roles are swapped)
 *   - timed waits additionally time out when vp_timeout_cfg says so (per-query constant: j-th timed wait of the run).  */
#include "vp_rt.h"

int vp_sched_inner(void); int vp_sched_active(void); int vp_yield_to_pending(void);
void vp_sync_point(void); /* a schedule point of the sequentialised schedule (defined in vp_rt.c) */
int vp_timeout_at = -1, vp_timed_seen;
uint64_t vp_clock_now;

extern VP_THREAD_LOCAL int vp_tid;
#define VP_ME ((uint64_t)vp_tid + 1)   /* the mutex word holds its owner: logical thread + 1, 0 = free */
int pthread_mutex_lock(uint64_t m) {
  vp_sync_point();
  if (vp_ld(m, 8) == VP_ME) { VP_FAIL("deadlock: a thread locks a non-recursive mutex that it already holds"); VP_ASSUME(0); }
  VP_ASSUME(vp_ld(m, 8) == 0);   /* held by another logical thread: that thread cannot continue underneath -> infeasible nesting */
  vp_st(m, 8, VP_ME);
  vp_hb_lock_acquire(m);
  return 0;
}
int pthread_mutex_trylock(uint64_t m) {
  vp_sync_point();
  if (vp_ld(m, 8) != 0) return 16; /* EBUSY */
  vp_st(m, 8, VP_ME);
  return 0;
}
int pthread_mutex_unlock(uint64_t m) {
  VP_ASSERT(vp_ld(m, 8) != 0, "unlock of a mutex that is not locked");
  vp_hb_lock_release(m);
  vp_st(m, 8, 0);
  vp_sync_point();
  return 0;
}
int pthread_mutex_init(uint64_t m, uint64_t attr) { vp_st(m, 8, 0); return 0; }
int pthread_mutex_destroy(uint64_t m) { VP_ASSERT(vp_ld(m, 8) == 0, "mutex destroyed while locked"); return 0; }

static void vp_block_on_cv(uint64_t mutex_addr) {
  VP_ASSERT(vp_ld(mutex_addr, 8) == VP_ME, "condition variable wait without holding the mutex");
  vp_hb_lock_release(mutex_addr);
  vp_st(mutex_addr, 8, 0);
  if (!vp_yield_to_pending()) {
    /* nobody else can run any more */
    if (vp_sched_inner()) { VP_ASSUME(0); return; }   /* an inner unit cannot complete underneath the one it preempted: infeasible nesting */
    if (vp_sched_active()) VP_FAIL("deadlock: a thread blocks on a condition variable and nobody is left to wake it (lost wake-up)");
    else VP_FAIL("VP-BOUND: blocking wait in a module built without the sequentialised scheduler");
    VP_ASSUME(0);
  }
  VP_ASSUME(vp_ld(mutex_addr, 8) == 0);
  vp_st(mutex_addr, 8, VP_ME);
  vp_hb_lock_acquire(mutex_addr);
}
/* std::condition_variable */
void _ZNSt18condition_variableC1Ev(uint64_t cv) { vp_st(cv, 8, 0); }
void _ZNSt18condition_variableC2Ev(uint64_t cv) { vp_st(cv, 8, 0); }
void _ZNSt18condition_variableD1Ev(uint64_t cv) {}
void _ZNSt18condition_variableD2Ev(uint64_t cv) {}
void _ZNSt18condition_variable10notify_oneEv(uint64_t cv) { vp_st(cv, 8, vp_ld(cv, 8) + 1); vp_sync_point(); }
void _ZNSt18condition_variable10notify_allEv(uint64_t cv) { vp_st(cv, 8, vp_ld(cv, 8) + 1); vp_sync_point(); }
/* wait(std::unique_lock<std::mutex>&): unique_lock = { mutex* _M_device; bool _M_owns } */
void _ZNSt18condition_variable4waitERSt11unique_lockISt5mutexE(uint64_t cv, uint64_t lock) {
  vp_block_on_cv(vp_ld(lock, 8));
}
/* pthread_cond_clockwait(cond, mutex, clockid, abstime) -- what libstdc++'s wait_for/wait_until reach */
int pthread_cond_clockwait(uint64_t cv, uint64_t m, uint32_t clk, uint64_t ts) {
  int fire = (vp_timeout_at >= 0 && vp_timed_seen == vp_timeout_at);
  vp_timed_seen++;
  if (fire) { /* deadline passes before anybody notifies; other threads may still run around it */
    vp_hb_lock_release(m);
    vp_st(m, 8, 0);
    vp_sync_point();
    VP_ASSUME(vp_ld(m, 8) == 0);
    vp_st(m, 8, VP_ME);
    vp_hb_lock_acquire(m);
    vp_clock_now += 1000000000UL;
    return 110; /* ETIMEDOUT */
  }
  vp_block_on_cv(m);
  return 0;
}
int pthread_cond_timedwait(uint64_t cv, uint64_t m, uint64_t ts) { return pthread_cond_clockwait(cv, m, 0, ts); }
/* clocks: symbolic-free monotone counter (time only matters through which timed wait expires) */
int64_t _ZNSt6chrono3_V212steady_clock3nowEv(void) { vp_clock_now += 1; return (int64_t)vp_clock_now; }
int64_t _ZNSt6chrono3_V212system_clock3nowEv(void) { vp_clock_now += 1; return (int64_t)vp_clock_now; }
void _ZSt20__throw_system_errori(int e) { VP_FAIL("std::__throw_system_error"); }

/* model of yaclib::detail::Spinlock (harness/model_include): see the comment there */
void vp_spin_lock(uint64_t w, uint32_t sz) { vp_sync_point(); VP_ASSUME(vp_ld(w, (int)sz) == 0); vp_st(w, (int)sz, 1); vp_hb_lock_acquire(w); }
void vp_spin_unlock(uint64_t w, uint32_t sz) { VP_ASSERT(vp_ld(w, (int)sz) == 1, "unlock of a spinlock that is not locked"); vp_hb_lock_release(w); vp_st(w, (int)sz, 0); vp_sync_point(); }

/* ---- std::thread (sequentialised): starting a thread registers its body as work of the scenario; the harness names which pending
 * unit runs it (vp_thread_body(n)); join blocks = lets pending units run, and fails if the thread can never finish. */
#define VP_MAXTHREADS 4
uint64_t vp_thr_state[VP_MAXTHREADS]; int vp_thr_n, vp_thr_done[VP_MAXTHREADS];
void vp_vcall_void(uint64_t obj, uint32_t slot); /* generated: virtual call obj->vtable[slot](obj) for void(ptr) slots */
/* std::thread::_M_start_thread(unique_ptr<_State>, void (*)()) : this = &thread::_M_id */
void _ZNSt6thread15_M_start_threadESt10unique_ptrINS_6_StateESt14default_deleteIS1_EEPFvvE(uint64_t self, uint64_t uptr, uint64_t dep) {
  VP_ASSERT(vp_thr_n < VP_MAXTHREADS, "VP-BOUND: more std::threads than modelled");
  vp_thr_state[vp_thr_n] = vp_ld(uptr, 8);
  vp_st(uptr, 8, 0);                       /* ownership of the state moves to the new thread */
  vp_st(self, 8, (uint64_t)vp_thr_n + 1);  /* thread::id */
  vp_thr_n++;
  vp_sync_point();
}
void vp_thread_body(uint32_t n) {          /* called by the unit that stands for thread n */
  uint64_t st = vp_thr_state[n];
  VP_ASSERT(st != 0, "harness: thread body run before the thread was started");
  vp_vcall_void(st, 2);                    /* _State::_M_run() */
  vp_vcall_void(st, 1);                    /* delete state (deleting destructor) */
  vp_thr_done[n] = 1;
  vp_sync_point();
}
void _ZNSt6thread4joinEv(uint64_t self) {
  uint64_t id = vp_ld(self, 8);
  VP_ASSERT(id != 0, "join of a non-joinable thread");
  vp_sync_point();
  while (!vp_thr_done[id - 1]) {
    if (!vp_yield_to_pending()) {
      if (vp_sched_inner()) { VP_ASSUME(0); return; }
      VP_FAIL("deadlock: join waits for a thread that can never finish");
      VP_ASSUME(0);
    }
  }
  vp_st(self, 8, 0);
}
void _ZNSt6thread6detachEv(uint64_t self) { vp_st(self, 8, 0); }
uint32_t _ZNSt6thread20hardware_concurrencyEv(void) { return 2; }
void _ZNSt6thread6_StateD2Ev(uint64_t self) {}
void _ZNSt6thread6_StateD1Ev(uint64_t self) {}
