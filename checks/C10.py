"""C10 -- WhenAny completes once with the right winner for each fail policy (Tier A over any.hpp / when.hpp / when_any.hpp)."""
from checks import when_common


def plan(tier, seed, ctx):
    configs = [('any_none_s', 'c10_epilogue_any', 0, 'WhenAny<None> static'), ('any_first_s', 'c10_epilogue_any', 1, 'WhenAny<FirstFail> static'),
               ('any_last_s', 'c10_epilogue_any', 2, 'WhenAny<LastFail> static'), ('any_last_d', 'c10_epilogue_any', 2, 'WhenAny<LastFail> dynamic')]
    if tier != 'quick':
        configs += [('any_none_d', 'c10_epilogue_any', 0, 'WhenAny<None> dynamic'), ('any_first_d', 'c10_epilogue_any', 1, 'WhenAny<FirstFail> dynamic')]
    meta = {'rule': 'Per policy x form x outcome kinds x racing pair of units {build, complete input 0, complete input 1} x preemption index one query.',
            'explanation': 'Real code: any.hpp (Any<None|FirstFail|LastFail> incl. the packed 2*count/parity counter), when.hpp (When, combinators, callbacks), when_any.hpp, plus C01\'s core code.'}
    return when_common.make_plan('C10', tier, seed, ctx, configs, meta)


MANIFEST = {
    'level_text': 'For WhenAny with each FailPolicy (static form; LastFail also dynamic) over 2 inputs the solver shows for every payload and every well-nested two-unit schedule '
                  '(any pair of {build, complete input 0, complete input 1}, preemption at any atomic operation, covering bound proved): output set exactly once with the outcome of '
                  'an input; a value wins under FirstFail/LastFail; in sequential order exactly the first value / first failure / last failure / first completion; every '
                  'input and the combinator released exactly once.',
    'level_note': 'n=2, unique futures, well-nested schedules. Trusted: clang -O1 IR, ir2c, rt, cbmc.',
    'technique': 'bounded model checking of the real code with solver-decided preemption cubes',
    'design_ref': 'DESIGN.md 4 C10',
}
