"""C11 -- Wait returns only when ready; a timed-out wait leaves the futures intact (Tier A, modelled mutex/condvar/clock)."""
import core

LIB = [('src/algo/base_core.cpp', 'prod17'), ('src/exe/inline.cpp', 'prod17'), ('src/algo/drop_core.cpp', 'prod17'), ('src/util/mutex_event.cpp', 'prod17'), ('src/async/wait_impl.cpp', 'prod17')]


def entry(name, preset, outer, inner_idx, k, timeout_at, epi_args, kmax):
    s = 'void %s(void) {\n  vp_spurious_cfg = 0; vp_spurious_at = -1; vp_timeout_at = %d;\n  vp_init();\n  c11_prologue(%d);\n' % (name, timeout_at, preset)
    s += '  vp_unit_sel = %d; vp_pre_k = %d; vp_pre_enabled = 1;\n  %s();\n' % (inner_idx, k, outer)
    if k < 0:
        s += '  VP_ASSERT(vp_pre_count <= %d, "VP-BOUND: unit performs more atomic operations than there are preemption cubes");\n' % kmax
    s += '  vp_run_pending_unit();\n  vp_pre_enabled = 0;\n  c11_epilogue(%s);\n}\n' % epi_args
    return s


def plan(tier, seed, ctx):
    kmax = 14 if tier == 'quick' else 20
    modules = {'c11': [('harness/C11_api.cpp', 'prod17')] + LIB,
               'c11k': [('harness/C11_kernel.cpp', 'prod17'), ('src/algo/base_core.cpp', 'prod17'), ('src/exe/inline.cpp', 'prod17')]}
    units = ['c11_produce0', 'c11_produce01', 'c11_produce1', 'c11_wait1', 'c11_wait2', 'c11_wait2it', 'c11_waitfor1', 'c11_waitfor2', 'c11_waitfor2it', 'c11_get']
    head = core.decls(units + ['c11_alloc_free']) + 'void c11_prologue(uint32_t);\nvoid c11_epilogue(uint32_t, uint32_t, uint32_t);\n' + core.unit_selector(units)
    queries = []
    first = [True]

    def add(name, text, what):
        fam = name.rsplit('_k', 1)[0]
        queries.append({'name': name, 'module': 'c11', 'main': (head if first[0] else '') + text, 'unwind': 8, 'timeout': 300, 'sample': what, 'witness': 'any', 'family': fam})
        first[0] = False
    add('c11_alloc_free_q', 'void c11_alloc_free_q(void) { vp_init(); c11_alloc_free(); }\n', 'Wait/WaitFor/Get on ready plain futures allocate nothing (C20 clause)')
    # (waiter, n futures, timed, get, producers to race with [(producer unit, preset mask)])
    W = [('wait1', 1, 0, 0, [('produce0', 0)]), ('get', 1, 0, 1, [('produce0', 0)]),
         ('wait2', 2, 0, 0, [('produce01', 0), ('produce1', 1), ('produce0', 2)]), ('wait2it', 2, 0, 0, [('produce01', 0)]),
         ('waitfor1', 1, 1, 0, [('produce0', 0)]), ('waitfor2', 2, 1, 0, [('produce01', 0), ('produce1', 1), ('produce0', 2)]),
         ('waitfor2it', 2, 1, 0, [('produce01', 0)])]
    for (w, n, timed, get, prods) in W:
        wu = 'c11_' + w
        for (p, preset) in prods:
            pu = 'c11_' + p
            for tmo in ((-1, 0) if timed else (-1,)):
                # waiter outer, producer inner (producer lands at any atomic/sync operation of the waiter, incl. while it blocks)
                for k in range(-1, kmax):
                    if k < 0 and tmo < 0:
                        continue  # waiter alone without time-out and nothing completing it would (correctly) deadlock
                    nm = 'c11_%s_%s_m%d_t%s_W_k%s' % (w, p, preset, 'o' if tmo >= 0 else 'n', 'none' if k < 0 else k)
                    add(nm, entry(nm, preset, wu, units.index(pu) + 1, k, tmo, '%d, %d, %d' % (n, 1 if tmo >= 0 else 0, get), kmax),
                        'waiter %s outer, producer %s (preset mask %d) runs at operation #%s of the waiter; first timed wait %s'
                        % (w, p, preset, 'after the end' if k < 0 else k, 'expires' if tmo >= 0 else 'does not expire'))
                # producer outer, waiter inner (feasible when the waiter need not block: results already there, or the timed wait expires)
                for k in range(-1, kmax):
                    nm = 'c11_%s_%s_m%d_t%s_P_k%s' % (w, p, preset, 'o' if tmo >= 0 else 'n', 'none' if k < 0 else k)
                    add(nm, entry(nm, preset, pu, units.index(wu) + 1, k, tmo, '%d, %d, %d' % (n, 1 if tmo >= 0 else 0, get), kmax),
                        'producer %s outer, waiter %s runs to completion at operation #%s of the producer; first timed wait %s'
                        % (p, w, 'after the end' if k < 0 else k, 'expires' if tmo >= 0 else 'does not expire'))
    kfns = ['c11k_prologue', 'c11k_producer0', 'c11k_producer1', 'c11k_producer01', 'c11k_waiter_timed', 'c11k_waiter', 'c11k_epilogue']
    kq = [('c11k_timed_3threads', ['c11k_waiter_timed', 'c11k_producer0', 'c11k_producer1']), ('c11k_timed_2threads', ['c11k_waiter_timed', 'c11k_producer01']),
          ('c11k_untimed_2threads', ['c11k_waiter', 'c11k_producer01']), ('c11k_untimed_3threads', ['c11k_waiter', 'c11k_producer0', 'c11k_producer1'])]
    for i, (nm, threads) in enumerate(kq):
        queries.append({'name': nm, 'module': 'c11k', 'main': (core.decls(kfns) if i == 0 else '') + core.threaded_entry(nm, 'c11k_prologue', threads, 'c11k_epilogue'),
                        'unwind': 4, 'timeout': 600, 'witness': 'any',
                        'sample': 'Tier K: real WaitRange + MultiEvent/AtomicCounter/CallCallback + real callback words, threads %s, ALL interleavings; the deadline may fall at any moment' % threads})
    meta = {
        'rule': 'Tier K: 4 queries over every interleaving (CBMC threads) of the real WaitRange with 1-2 producers (stub OS event). Tier A: Per waiter form (single-future fast path, variadic, iterator; Wait / WaitFor / Get) x producer split x time-out choice x nesting x preemption index one query. '
                'A nested schedule in which the inner unit would have to block is infeasible and pruned by the model (the swapped-role query covers that order); the witness shows '
                'each query family is non-vacuous.',
        'bounds': {'futures': '1-2', 'logical_threads': 2, 'tier_A_kmax': kmax, 'timed_waits_that_expire': 'none or the first one'},
        'stubs': ['pthread_mutex_lock/unlock, std::condition_variable::{wait,notify_one,notify_all}, pthread_cond_clockwait, steady_clock::now modelled in rt/vp_sync.c '
                  '(blocking = let the pending unit run; a wait with nobody left to run = deadlock/lost wake-up failure; time-out = per-query constant)'],
        'assumptions': ['unique futures only (shared futures in Wait are not covered)', 'WaitUntil shares WaitCore with WaitFor and is not instantiated separately',
                        'AtomicEvent/futex configuration is compiled out by the repository (YACLIB_FUTEX=0)'],
        'functions_filter': r'(Wait|MutexEvent|MultiEvent|CallCallback|BaseCore|c11_)',
        'explanation': 'Real code: wait_impl.hpp (WaitCore, WaitIterator, WaitRange), wait_event.hpp, mutex_event.cpp/.hpp, atomic_counter.hpp (SubEqual), unique_counter.hpp, '
                       'base_core.cpp (SetCallbackImpl, ResetImpl, SetResultImpl), future.hpp (Get).  The event lives in WaitCore\'s stack frame: the memory ghost marks the frame '
                       'dead at return, so a completion that still touches the waiter trips "access to dead memory".',
    }
    return {'modules': modules, 'queries': queries, 'meta': meta,
            'module_opts': {'c11': {'nthreads': 2, 'heap': 1024, 'stack': 3072, 'preempt': True},
                            'c11k': {'nthreads': 4, 'heap': 0, 'stack': 192, 'scalar_mem': True, 'defines': ('VP_NO_ALIVE=1',)}}}


MANIFEST = {
    'level_text': 'Tier K: for the real WaitRange/MultiEvent/AtomicCounter code on two real callback words the solver covers EVERY interleaving of a (timed) waiter with two producers, the '
                  'deadline falling at any moment: success implies both Ready, and no completion touches the event after the wait returned (the lost-Reset-race window). Tier A: for Wait/WaitFor (1 future fast path, 2 futures variadic and iterator) and Get the solver shows for every payload and every well-nested two-unit schedule of waiter '
                  'and producer(s), with the first timed wait expiring or not: success implies all listed futures Ready; false only after the (modelled) deadline passed; afterwards each '
                  'future delivers its result exactly once; no completion touches the waiter\'s stack event after the call returned; no lost wake-up (a block with nobody left to signal is a failure).',
    'level_note': 'Mutex/condvar/clock are models (rt/vp_sync.c); 2 logical threads, well-nested schedules; unique futures. Trusted: clang -O1 IR, ir2c, rt, cbmc.',
    'technique': 'bounded model checking of the real code with solver-decided preemption cubes and a modelled pthread boundary',
    'design_ref': 'DESIGN.md 4 C11',
}
