"""when_common.py -- plan builder for the combinator checks C09 (WhenAll/Join) and C10 (WhenAny): Tier A over harness/C10_api.cpp."""
import itertools
import core

LIB = [('src/algo/base_core.cpp', 'prod17'), ('src/exe/inline.cpp', 'prod17'), ('src/algo/drop_core.cpp', 'prod17')]
KIND = ['value', 'error', 'exception']
UNITS = ['c10_set0', 'c10_set1']


def entry(name, build, pre, outer, inner_idx, post, k, kinds, epi, epi_arg, kmax):
    s = 'void %s(void) {\n  vp_spurious_cfg = 0; vp_spurious_at = -1;\n  vp_init();\n  c10_prologue(%d, %d, %d);\n' % (name, kinds[0], kinds[1], 1 if k < 0 else 0)
    for f in pre:
        s += '  %s();\n' % f
    s += '  vp_unit_sel = %d; vp_pre_k = %d; vp_pre_enabled = 1;\n  %s();\n' % (inner_idx, k, outer)
    if k < 0 and kmax is not None:
        s += '  VP_ASSERT(vp_pre_count <= %d, "VP-BOUND: unit performs more atomic operations than there are preemption cubes");\n' % kmax
    s += '  vp_run_pending_unit();\n  vp_pre_enabled = 0;\n'
    for f in post:
        s += '  %s();\n' % f
    s += '  %s(%d);\n}\n' % (epi, epi_arg)
    return s


def make_plan(pid, tier, seed, ctx, configs, meta):
    """configs: list of (build name, epilogue fn, epilogue arg, human name)"""
    kmax = 17 if tier == 'quick' else 26   # atomic operations + plain accesses inside the combinators' Here() (sync_plain_funcs)
    modules = {'when': [('harness/C10_api.cpp', 'prod17')] + LIB}
    builds = sorted(set(c[0] for c in configs))
    units = UNITS + ['c10_build_' + b for b in builds]
    head = core.decls(units + ['c10_empty_and_single']) + 'void c10_prologue(uint32_t, uint32_t, uint32_t);\n' + \
        'void c10_epilogue_any(uint32_t); void c10_epilogue_all(uint32_t); void c10_epilogue_join(uint32_t);\nvoid c09_shared_inputs(uint32_t); void c20_when_allocs(uint32_t); void c09_tuple_first(uint32_t, uint32_t, uint32_t); void c09_tuple_none(uint32_t, uint32_t, uint32_t);\nvoid c10_any3_none(uint32_t, uint32_t, uint32_t, uint32_t); void c10_any3_first(uint32_t, uint32_t, uint32_t, uint32_t); void c10_any3_last(uint32_t, uint32_t, uint32_t, uint32_t);\n' + core.unit_selector(units)
    queries = []
    first = [True]

    def add(name, text, what, timeout=200):
        queries.append({'name': name, 'module': 'when', 'main': (head if first[0] else '') + text, 'unwind': 8, 'timeout': timeout, 'sample': what})
        first[0] = False
    add('c10_empty_and_single_q', 'void c10_empty_and_single_q(void) { vp_init(); c10_empty_and_single(); }\n', 'empty input range -> invalid future; WhenAny of one future')
    if pid == 'C10':
        pats = [(0, 1, 0), (1, 0, 1), (0, 0, 1), (1, 1, 0), (1, 2, 1), (2, 0, 0), (0, 2, 0), (1, 1, 1)] if tier == 'quick' else list(itertools.product(range(3), repeat=3))
        for pol in ('none', 'first', 'last'):
            for (a, b, c), o in itertools.product(pats, range(6)):
                nm = 'c10_any3_%s_%s%s%s_o%d' % (pol, 'vex'[a], 'vex'[b], 'vex'[c], o)
                add(nm, 'void %s(void) { vp_init(); c10_any3_%s(%d, %d, %d, %d); }\n' % (nm, pol, a, b, c, o),
                    'WhenAny<%s> static, 3 inputs (%s, %s, %s), sequential completion order #%d' % (pol, KIND[a], KIND[b], KIND[c], o))
    if pid == 'C09':
        for form, what in enumerate(('the same SharedFuture given twice (static form)', 'SharedFutures [s1, s2, s1] in the dynamic form, completed in reverse order', 'unique + shared input (static form)')):
            add('c09_shared_inputs_%d' % form, 'void c09_shared_inputs_%d(void) { vp_spurious_cfg = 0; vp_init(); c09_shared_inputs(%d); }\n' % (form, form),
                'WhenAll<FirstFail> over shared inputs with a move-marking value type: %s; entries and the inputs afterwards' % what)
        for pol in ('first', 'none'):
            for k0, k1, order in itertools.product(range(3), range(3), range(3)):
                if pol == 'first' and k0 != 0 and k1 == 0 and order == 1:
                    continue  # no verdict within 200 s (symex does not finish); stated as outside the claim
                nm = 'c09_tuple_%s_%s%s_o%d' % (pol, 'vex'[k0], 'vex'[k1], order)
                add(nm, 'void %s(void) { vp_init(); c09_tuple_%s(%d, %d, %d); }\n' % (nm, pol, k0, k1, order),
                    'WhenAll<%s> tuple form (Future<int>, Future<unsigned>), inputs (%s, %s), sequential completion order %d' % (pol, KIND[k0], KIND[k1], order))
    kinds_all = list(itertools.product(range(3), range(3)))
    for (b, epi, earg, human) in configs:
        bu = 'c10_build_' + b
        bi = units.index(bu) + 1
        kinds_sel = kinds_all if tier != 'quick' else [(0, 0), (0, 1), (1, 0), (1, 2), (2, 2)]
        for kinds in kinds_sel:
            kn = 'vex'[kinds[0]] + 'vex'[kinds[1]]
            # scenario table: (tag, pre, outer, inner index, post)
            scen = [('s0s1', [bu], 'c10_set0', 2, []), ('s1s0', [bu], 'c10_set1', 1, []),
                    ('b_s0', [], bu, 1, ['c10_set1']), ('s0_b', [], 'c10_set0', bi, ['c10_set1']),
                    ('rb_s1', ['c10_set0'], bu, 2, []), ('rs1_b', ['c10_set0'], 'c10_set1', bi, [])]
            if tier == 'quick':
                ks = [-1] + list(range(0, kmax))
            else:
                ks = [-1] + list(range(0, kmax))
            for (tag, pre, outer, inner, post) in scen:
                cubes = tier != 'quick' or (kinds == (0, 1) and tag in ('s0s1', 's1s0', 'b_s0', 's0_b') or kinds == (1, 2) and tag in ('s0s1', 's1s0', 'rb_s1') or kinds == (2, 2) and tag == 's0s1')
                for k in ks:
                    if k >= 0 and not cubes:
                        continue
                    name = '%s_%s_%s_%s_k%s' % (pid.lower(), b, kn, tag, 'none' if k < 0 else k)
                    # the covering bound is asserted (k = none) exactly where preemption cubes are enumerated; the other scenarios are sequential only
                    add(name, entry(name, bu, pre, outer, inner, post, k, kinds, epi, earg, kmax if cubes else None),
                        'Tier A: %s, inputs (%s, %s); scenario %s (pre=%s outer=%s inner=%s post=%s), inner unit at atomic operation #%s of the outer'
                        % (human, KIND[kinds[0]], KIND[kinds[1]], tag, pre, outer, units[inner - 1], post, 'after the end' if k < 0 else k))
    meta = dict(meta)
    meta.setdefault('bounds', {})
    meta['bounds'].update({'inputs': 2, 'logical_threads': 2, 'tier_A_kmax': kmax, 'V': 'int', 'E': 'StopError',
                           'outcome_kinds': 'enumerated per query (value/error/exception)^2; payloads symbolic'})
    meta['stubs'] = ['operator new never fails; std::vector code as instantiated by clang is encoded, not stubbed', 'exception objects / exception_ptr modelled in flat memory']
    meta.setdefault('assumptions', [])
    meta['assumptions'] += ['n = 2 inputs; three-party schedules and deeper interleavings are outside the claim', 'unique futures only (shared / mixed inputs not covered)',
                            '"first"/"last" are asserted exactly in the sequential-order queries and as membership + policy constraints in the preemption cubes']
    meta['functions_filter'] = r'(when|When|Any|All|Join|Combinator|c10_)'
    return {'modules': modules, 'queries': queries, 'meta': meta, 'module_opts': {'when': {'nthreads': 2, 'heap': 2048, 'stack': 3072, 'preempt': True}},
            'ir2c_opts': {'when': {'sync_plain_funcs': r'^_ZNK?6yaclib4when.*(7ConsumeE|4HereE)'}}}
