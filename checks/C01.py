"""C01 -- a fulfilled Promise is delivered to its Future exactly once, intact.
Tier K: real base_core.cpp hand-off word under all interleavings (CBMC threads, scalar memory).
Tier A: complete public API path, producer and consumer as two units; the second unit runs to completion at the k-th atomic
operation of the first (one solver query per k, everything else symbolic), plus both sequential orders."""
import core

LIB = [('src/algo/base_core.cpp', 'prod17'), ('src/exe/inline.cpp', 'prod17'), ('src/algo/drop_core.cpp', 'prod17')]
CONSUMERS = {  # name -> epilogue
    'then_inline': 'cb', 'then': 'cb', 'detach_on': 'cb', 'detach_inline': 'cb', 'poll': 'cb', 'connect': 'cb',
    'detach': 'nocb', 'drop': 'nocb'}
KMAX = {'quick': 8, 'thorough': 14}


def plan(tier, seed, ctx):
    modules = {
        'c01k': [('harness/C01_kernel.cpp', 'prod17')] + LIB[:2],
        'c01a': [('harness/C01_api.cpp', 'prod17')] + LIB,
    }
    queries = []
    kfns = ['c01k_prologue', 'c01k_producer', 'c01k_consumer_setinline', 'c01k_consumer_callinline', 'c01k_consumer_wait',
            'c01k_epilogue_cb', 'c01k_epilogue_wait']
    first = True
    for cons, epi in (('setinline', 'cb'), ('callinline', 'cb'), ('wait', 'wait')):
        e = 'c01k_' + cons
        main = (core.decls(kfns) if first else '') + core.threaded_entry(e, 'c01k_prologue', ['c01k_producer', 'c01k_consumer_' + cons], 'c01k_epilogue_' + epi)
        first = False
        queries.append({'name': e, 'module': 'c01k', 'main': main, 'unwind': 4, 'timeout': 300,
                        'sample': 'Tier K: producer (Store; SetResult; Loop) || consumer %s on one real BaseCore, all interleavings, '
                                  'symbolic payload, weak-CAS spurious failure budget 1' % cons})
    units = ['c01a_produce'] + ['c01a_consume_' + c for c in CONSUMERS]
    afns = units + ['c01a_epilogue_cb', 'c01a_epilogue_nocb']
    PK = ['value', 'error', 'exception', 'dropped']
    first = True
    kmax = KMAX[tier]
    for ci, (c, epi) in enumerate(CONSUMERS.items()):
        cu = 'c01a_consume_' + c
        modes = (0, 1) if c in ('then', 'detach_on', 'connect') else (0,)
        for pk in range(4):
          for dm in modes:
            for outer, inner_idx, tag in (('c01a_produce', 2 + ci, 'P'), (cu, 1, 'C')):
              for k in range(-1, kmax):
                e = 'c01a_%s_%s%s_%s_k%s' % (c, PK[pk], '_deferred' if dm else '', tag, 'none' if k < 0 else k)
                main = ((core.decls(afns) + 'void c01a_prologue(uint32_t, uint32_t);\n' + core.unit_selector(units)) if first else '')
                first = False
                main += core.cube_entry(e, 'c01a_prologue', outer, inner_idx, k, 'c01a_epilogue_' + epi, kmax, '%d, %d' % (pk, dm))
                queries.append({'name': e, 'module': 'c01a', 'main': main, 'unwind': 6, 'timeout': 120,
                                'sample': 'Tier A: consumer=%s producer=%s executor=%s; outer unit=%s, the other unit runs to completion at its '
                                          'atomic operation #%s; payload symbolic'
                                          % (c, PK[pk], 'deferred' if dm else 'inline', 'producer' if tag == 'P' else 'consumer', 'after the end' if k < 0 else k)})
    meta = {
        'rule': 'Tier K: one query per consumer kind of the callback-word protocol, CBMC partial-order thread encoding (every SC interleaving of '
                'shared accesses). Tier A: per consumer kind x outer unit x preemption index k one query over all inputs; k=none also proves the '
                'covering bound (outer unit alone has <= kmax atomic operations).',
        'bounds': {'threads': 2, 'contracts': '1 (2 for Connect)', 'tier_A_kmax': kmax, 'spurious_weak_cas_failures': 1, 'V': 'int',
                   'tier_K_memory_words': 128, 'unwind': '4 (K) / 6 (A)',
                   'tier_A_schedules': 'well-nested: one unit runs to completion inside the other at any atomic operation, or after it'},
        'stubs': ['Tier K: BaseCore subclass with a plain 3-word payload and leaf InlineCore callbacks (harness/C01_kernel.cpp)',
                  'Tier A: stub IExecutor that runs the job inline or defers it to a drain at quiescence (symbolic choice)',
                  'operator new never fails; exception objects modelled in flat memory (rt/vp_rt.c)'],
        'assumptions': ['blocking consumers (Get&&, Wait) are decided at kernel level only here (wait query incl. time-out/Reset race); their API path is C11\'s',
                        'executions that are not sequentially consistent are outside (C04 covers the ordering argument)',
                        'Tier A does not cover schedules where two API calls mutually interleave more than one window deep (Tier K does, for the hand-off word)'],
        'functions_filter': r'(BaseCore|UniqueCore|ResultCore|Promise|Future|Connect|Core|Drop|c01)',
        'explanation': 'Real code encoded: src/algo/base_core.cpp, drop_core.cpp, exe/inline.cpp and every template the harness instantiates from '
                       'promise.hpp/future.hpp/core.hpp/result_core.hpp/unique_core.hpp/connect.hpp/contract.hpp.',
    }
    return {'modules': modules, 'queries': queries, 'meta': meta,
            'module_opts': {'c01k': {'nthreads': 3, 'heap': 0, 'stack': 128, 'scalar_mem': True, 'defines': ('VP_NO_ALIVE=1',)},
                            'c01a': {'nthreads': 2, 'heap': 1024, 'stack': 2048, 'preempt': True}}}


MANIFEST = {
    'level_text': 'Tier K: for the real callback-word code of base_core.cpp the solver covers EVERY interleaving (shared-access granularity) of a '
                  'producer with each consumer protocol (SetInline, CallInline, Wait incl. timed-out wait + Reset race) and shows exactly-once, intact, '
                  'not-early delivery. Tier A: for the complete public API path (MakeContract/Set/~Promise x ThenInline/Then/Detach*/poll/Connect/drop) '
                  'every well-nested two-unit schedule (preemption at any atomic operation, covering bound proved) with symbolic producer kind, payload and '
                  'executor behaviour delivers exactly once with the set Result and leaves nothing allocated.',
    'level_note': 'Bounded: 2 threads, 1 contract, SC executions, spurious weak-CAS failures <= 1, Tier A only well-nested schedules. Trusted: clang -O1 IR, '
                  'ir2c, rt/vp_rt.c, cbmc/SAT. Blocking Get/Wait API path is covered by C11.',
    'technique': 'bounded model checking of the real code (LLVM IR -> C -> CBMC): partial-order thread encoding for the kernel, solver-decided preemption cubes for the API path',
    'design_ref': 'DESIGN.md 2b, 4 C01',
}
