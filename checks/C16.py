"""C16 -- WaitGroup/OneShotEvent release every waiter exactly when the count hits zero (Tier K over one_shot_event.cpp + WaitGroup's counter/event)."""
import core


def plan(tier, seed, ctx):
    modules = {'c16k': [('harness/C16_kernel.cpp', 'prod17'), ('src/algo/one_shot_event.cpp', 'prod17'), ('src/exe/inline.cpp', 'prod17'), ('src/util/mutex_event.cpp', 'prod17')]}
    fns = ['c16k_done', 'c16k_done_b', 'c16k_add_done_done', 'c16k_waiter0', 'c16k_waiter1', 'c16k_epilogue']
    head = core.decls(fns) + 'void c16k_prologue(uint32_t);\nvoid c16k_p1(void) { c16k_prologue(1); }\nvoid c16k_p2(void) { c16k_prologue(2); }\n'
    Q = [('c16k_done_2waiters', 'c16k_p1', ['c16k_done', 'c16k_waiter0', 'c16k_waiter1'], 'count 1: final Done || two waiters registering'),
         ('c16k_adddone_done_waiter', 'c16k_p2', ['c16k_add_done_done', 'c16k_done', 'c16k_waiter0'], 'count 2: {Add;Done;Done} || Done || one waiter registering'),
         ('c16k_done_done_waiter', 'c16k_p2', ['c16k_done', 'c16k_done_b', 'c16k_waiter0'], 'count 2: Done || Done || one waiter registering')]
    if tier != 'quick':
        Q.append(('c16k_adddone_done_2waiters', 'c16k_p2', ['c16k_add_done_done', 'c16k_done', 'c16k_waiter0', 'c16k_waiter1'], 'count 2: {Add;Done;Done} || Done || two waiters'))
    queries = []
    for i, (nm, pro, threads, what) in enumerate(Q):
        queries.append({'name': nm, 'module': 'c16k', 'main': (head if i == 0 else '') + core.threaded_entry(nm, pro, threads, 'c16k_epilogue'),
                        'unwind': 4, 'timeout': 900 if tier == 'quick' else 3000, 'witness': 'any', 'sample': 'Tier K, ALL interleavings: ' + what})
    meta = {
        'rule': 'One CBMC-threads query per scenario: every interleaving (shared-access granularity, weak-CAS spurious failure budget 1 per thread) of Add/Done threads with '
                'waiter registrations (TryAdd of a stub job + Ready(), which is what Wait, WaitFor and the co_await awaiters do) and the Set triggered by the final Done.',
        'bounds': {'threads': '3 (4 thorough)', 'waiters': '1-2', 'initial_count': '1-2', 'memory_words': 128, 'unwind': 4},
        'stubs': ['waiters are leaf Job stubs (stand for OneShotEvent::Waiter / TimedWaiter / the coroutine awaiters)'],
        'assumptions': ['the blocking part of Wait/WaitFor (mutex+condvar event) and the heap TimedWaiter\'s two-owner release are not covered by this check',
                        'Attach/Consume of futures go through the same counter+callbacks (CallCallback/DropCallback) but are not instantiated here',
                        'Add is only called while the count is non-zero (documented rule), enforced by the structure of the harness threads'],
        'functions_filter': r'(OneShotEvent|MultiEvent|AtomicCounter|SetImpl|c16k)',
        'explanation': 'Real code: src/algo/one_shot_event.cpp (TryAdd, SetImpl, Set, Ready), wait_event.hpp (MultiEvent), atomic_counter.hpp (Add, Sub, SubEqual incl. the acquire fence), set_deleter.hpp.',
    }
    return {'modules': modules, 'queries': queries, 'meta': meta,
            'module_opts': {'c16k': {'nthreads': 5, 'heap': 0, 'stack': 192, 'scalar_mem': True, 'defines': ('VP_NO_ALIVE=1',)}}}


MANIFEST = {
    'level_text': 'For the real OneShotEvent and WaitGroup counter/event code the solver covers EVERY interleaving of Add/Done threads, waiter registrations and the final Set: a registered '
                  'waiter is released exactly once and only when the count is zero, a waiter arriving after zero is refused (TryAdd false / Ready true) only when the count is zero, and the '
                  'event is set at quiescence.',
    'level_note': '3 threads (4 in thorough), <= 2 waiters, stub waiters; the blocking/timed wait wrappers and Attach/Consume instantiations are not covered. Trusted: clang -O1 IR, ir2c, rt, cbmc.',
    'technique': 'bounded model checking of the real code under CBMC\'s partial-order thread encoding (all SC interleavings)',
    'design_ref': 'DESIGN.md 4 C16',
}
