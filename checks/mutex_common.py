"""mutex_common.py -- plan builder for the coroutine-level Mutex (C14 part 2) and SharedMutex (C15) checks over harness/C15_api.cpp."""
import os
import core

LIB = ['src/algo/base_core.cpp', 'src/exe/inline.cpp', 'src/algo/drop_core.cpp']
MODEL_INC = '-I' + os.path.join(core.ROOT, 'harness', 'model_include')


def entry(name, dfr, pre, outer, inner_idx, post, k, workers, shared, kmax):
    s = 'void %s(void) {\n  vp_spurious_cfg = 0; vp_spurious_at = -1;\n  vp_init();\n  c15_prologue(%d);\n' % (name, dfr)
    for f in pre:
        s += '  %s();\n' % f
    s += '  vp_unit_sel = %d; vp_pre_k = %d; vp_pre_enabled = 1;\n  %s();\n' % (inner_idx, k, outer)
    if k < 0:
        s += '  VP_ASSERT(vp_pre_count <= %d, "VP-BOUND: unit performs more atomic operations than there are preemption cubes");\n' % kmax
    s += '  vp_run_pending_unit();\n  vp_pre_enabled = 0;\n'
    for f in post:
        s += '  %s();\n' % f
    s += '  c15_epilogue(%d, %d);\n}\n' % (workers, shared)
    return s


def make_plan(pid, tier, seed, ctx):
    shared = pid == 'C15'
    kmax = 12 if tier == 'quick' else 20
    opts = [('true', 'false'), ('false', 'true')] if tier == 'quick' else [('true', 'false'), ('false', 'true'), ('true', 'true'), ('false', 'false')]
    forms = ['w_lock', 'w_guard', 'r_lock', 'r_guard'] if shared else ['lock_unlock', 'guard', 'lock_unlockhere', 'lock_unlockon', 'guardsticky']
    tries = ['c15_try_shared_w', 'c15_try_shared_r'] if shared else ['c15_try_mutex']
    if shared:
        pairs = [('w_lock', 'r_lock'), ('r_lock', 'w_lock'), ('w_lock', 'w_guard'), ('r_guard', 'w_guard'), ('w_guard', 'r_guard'), ('r_lock', 'r_guard')]
        thirds = [None, ('pre', 'r_lock'), ('pre', 'w_lock'), ('post', 'w_lock')] if tier != 'quick' else [None, ('pre', 'r_lock'), ('pre', 'w_lock')]
        if tier == 'quick':
            pairs = pairs[:4]
    else:
        pairs = [('lock_unlock', 'lock_unlock'), ('guard', 'lock_unlockhere'), ('lock_unlockhere', 'lock_unlock'), ('lock_unlockon', 'guard'), ('guardsticky', 'lock_unlock'), ('lock_unlock', 'guardsticky'), ('lock_unlock', 'lock_unlockon')]
        thirds = [None, ('pre', 'lock_unlockhere')]
    if tier != 'quick':
        pairs = [(a, b) for a in forms for b in forms]
    modules, mopts, queries = {}, {}, []
    for (oa, ob) in opts:
        mn = '%s_%s%s' % (pid.lower(), oa[0], ob[0])
        modules[mn] = [('harness/C15_api.cpp', 'coro20', (MODEL_INC, '-DOPT_A=' + oa, '-DOPT_B=' + ob))] + [(l, 'coro20', (MODEL_INC,)) for l in LIB]
        mopts[mn] = {'nthreads': 2, 'heap': 2048, 'stack': 4096, 'preempt': True, 'hb': True}
        units = ['c15_start_%s_%d' % (f, i) for f in forms for i in range(3)] + ['c15_startd_%s_2' % f for f in forms] + tries
        hold_units = ['c15_release', 'c15_start_w_hold_3', 'c15_start_r_hold_3', 'c15_start_m_hold_3', 'c15_drain']
        head = core.decls(units + hold_units) + 'void c15_prologue(uint32_t);\nvoid c15_epilogue(uint32_t, uint32_t);\n' + core.unit_selector(units + hold_units)
        first = [True]

        def add(name, text, what, fam):
            queries.append({'name': name, 'module': mn, 'main': (head if first[0] else '') + text, 'unwind': 10, 'timeout': 300, 'sample': what, 'witness': 'any', 'family': fam})
            first[0] = False
        for (fa, fb) in pairs:
            for third in thirds:
                for dfr in ((0, 1) if (third is None and (oa, ob) == opts[0]) else (1,)):
                    pre = ['c15_start_%s_2' % third[1]] if third and third[0] == 'pre' else []
                    post = ['c15_start_%s_2' % third[1]] if third and third[0] == 'post' else []
                    workers = 2 + (1 if third else 0)
                    ua, ub = 'c15_start_%s_0' % fa, 'c15_start_%s_1' % fb
                    base = '%s_%s__%s%s%s' % (mn, fa, fb, ('_%s_%s' % third) if third else '', '_d' if dfr else '')
                    for k in range(-1, kmax):
                        nm = '%s_k%s' % (base, 'none' if k < 0 else k)
                        add(nm, entry(nm, dfr, pre, ua, units.index(ub) + 1, post, k, workers, 1 if shared else 0, kmax),
                            '<%s,%s>: coroutine %s (outer) vs coroutine %s at operation #%s; third %s; executors %s' % (oa, ob, fa, fb, 'after the end' if k < 0 else k, third, 'deferred' if dfr else 'inline'), base)
        # a holder parked INSIDE its critical section while three more coroutines arrive, then the release (sequential + release racing with the last arrival)
        holders = [('w_hold', ['r_lock', 'w_lock', 'w_guard']), ('w_hold', ['w_lock', 'r_lock', 'w_guard']), ('w_hold', ['w_lock', 'w_guard', 'r_lock']), ('r_hold', ['w_lock', 'r_lock', 'w_guard']),
                   ('r_hold', ['r_guard', 'w_lock', 'w_guard'])] if shared else [('m_hold', ['lock_unlock', 'guard', 'lock_unlockhere']), ('m_hold', ['lock_unlockon', 'lock_unlock', 'guardsticky'])]
        units_h = units + hold_units
        for hi, (h, arr) in enumerate(holders):
            base = '%s_hold%d_%s__%s' % (mn, hi, h, '_'.join(arr))
            # four contended coroutines: for SharedMutex symex finishes only for the first option set (the others: no verdict in 300 s, left out and stated); Mutex takes all
            for dfr in ((0, 1) if (not shared or (oa, ob) == opts[0]) else ()):
                if dfr and not shared and hi > 0:
                    continue   # UnlockOn / GuardSticky forms + drains overflow the 4-slot mailbox of the stub executor: inline only
                if dfr:   # deferred executors: every start is followed by a drain, so that the coroutine reaches its lock request
                    pre = ['c15_start_%s_3' % h, 'c15_drain'] + [x for i, f in enumerate(arr[:2]) for x in ('c15_start_%s_%d' % (f, i), 'c15_drain')]
                    last = 'c15_startd_%s_2' % arr[2]
                else:
                    pre = ['c15_start_%s_3' % h] + ['c15_start_%s_%d' % (f, i) for i, f in enumerate(arr[:2])]
                    last = 'c15_start_%s_2' % arr[2]
                for k in range(-1, kmax):
                    nm = '%s%s_k%s' % (base, '_d' if dfr else '', 'none' if k < 0 else k)
                    add(nm, entry(nm, dfr, pre, last, units_h.index('c15_release') + 1, [], k, 4, 1 if shared else 0, kmax),
                        '<%s,%s>: %s parked inside its critical section, arrivals %s; release at operation #%s of the last arrival; executors %s' % (oa, ob, h, arr, 'after the end' if k < 0 else k, 'deferred' if dfr else 'inline'), base)
                    if tier != 'quick':   # roles swapped: the last arrival runs at operation #k of the release
                        nm = '%s%s_swap_k%s' % (base, '_d' if dfr else '', 'none' if k < 0 else k)
                        add(nm, entry(nm, dfr, pre, 'c15_release', units_h.index(last) + 1, [], k, 4, 1 if shared else 0, kmax),
                            '<%s,%s>: %s parked inside its critical section, arrivals %s; last arrival at operation #%s of the release; executors %s' % (oa, ob, h, arr, 'after the end' if k < 0 else k, 'deferred' if dfr else 'inline'), base + '_swap')
        for t in tries:   # Try* prober racing with a holder
            for f in forms[:2] + forms[2:3]:
                ua = 'c15_start_%s_0' % f
                base = '%s_%s__%s' % (mn, f, t[4:])
                for k in range(-1, kmax):
                    nm = '%s_k%s' % (base, 'none' if k < 0 else k)
                    add(nm, entry(nm, 0, [], ua, units.index(t) + 1, [], k, 1, 1 if shared else 0, kmax), '<%s,%s>: coroutine %s vs %s at operation #%s' % (oa, ob, f, t, 'after the end' if k < 0 else k), base)
        if shared and (oa, ob) == opts[0]:   # the prober is the OUTER unit (first option set only: the others give no verdict in 300 s): a writer parked inside its critical section releases at operation #k of TryLock / TryLockShared
            for t in tries:
                base = '%s_whold_release__%s' % (mn, t[4:])
                for k in range(-1, 6):
                    nm = '%s_k%s' % (base, 'none' if k < 0 else k)
                    add(nm, entry(nm, 0, ['c15_start_w_hold_3'], t, units_h.index('c15_release') + 1, [], k, 1, 2, kmax),
                        '<%s,%s>: a writer parked inside its critical section releases at operation #%s of %s; afterwards a reader must still park behind a writer' % (oa, ob, 'after the end' if k < 0 else k, t), base)
    meta = {
        'rule': 'Per option pair x pair of coroutine forms x optional third coroutine (started before or after) x executor mode x preemption index one query; critical sections contain an explicit schedule point.',
        'bounds': {'racing_coroutines': 2, 'sequenced_third_coroutine': True, 'rounds': 1, 'tier_A_kmax': kmax, 'options': opts},
        'stubs': ['stub executors A, B (inline or deferred)', 'yaclib::detail::Spinlock is a MODEL (harness/model_include/yaclib/util/detail/spinlock.hpp): acquiring a spinlock held by the preempted unit makes that nested schedule infeasible'],
        'assumptions': ['several lock/unlock rounds per coroutine, > 3 coroutines and three-party races are outside the claim', 'FIFO grant order is not asserted (only exactly-once grants and exclusion)'],
        'functions_filter': r'(Mutex|Guard|Awaiter|Worker|c15_)',
        'explanation': 'Real code: coro/mutex.hpp or coro/shared_mutex.hpp (Impl + awaiters), coro/detail/mutex_awaiter.hpp, guard.hpp, guard_sticky.hpp, guard_state.hpp, on_awaiter.hpp, promise_type.hpp, '
                       'intrusive_list/stack, the clang-generated coroutine functions of the harness workers.',
    }
    return {'modules': modules, 'queries': queries, 'meta': meta, 'module_opts': mopts}
