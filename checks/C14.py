"""C14 -- coroutine Mutex: mutual exclusion and no lost wake-up.  Tier A over detail::MutexImpl<FIFO,Batching> (mutex.hpp)."""
import core
from checks import mutex_common


def plan(tier, seed, ctx):
    kp = kernel_plan(tier, seed, ctx)
    cp = mutex_common.make_plan('C14', tier, seed, ctx)
    kp['modules'].update(cp['modules'])
    kp['module_opts'].update(cp['module_opts'])
    kp['queries'] += cp['queries']
    kp['meta']['rule'] += ' Coroutine level: ' + cp['meta']['rule']
    kp['meta']['stubs'] += cp['meta']['stubs']
    kp['meta']['bounds']['coroutine_level'] = cp['meta']['bounds']
    kp['meta']['assumptions'] = [a for a in kp['meta']['assumptions'] if 'awaiters' not in a] + cp['meta']['assumptions']
    kp['meta']['explanation'] += ' Coroutine level: ' + cp['meta']['explanation']
    kp['meta']['functions_filter'] = r'(Mutex|Guard|Awaiter|Worker|c15_|c14k)'
    return kp


def kernel_plan(tier, seed, ctx):
    kmax = 10 if tier == 'quick' else 14
    modules, mopts, queries = {}, {}, []
    units = ['c14k_locker0', 'c14k_locker1', 'c14k_locker2', 'c14k_prober']
    for fifo in ('false', 'true'):
        mn = 'c14_fifo_' + fifo
        modules[mn] = [('harness/C14_kernel.cpp', 'coro20', ('-DKFIFO=' + fifo, '-DNO_LADDER=1')), ('src/algo/base_core.cpp', 'coro20'), ('src/exe/inline.cpp', 'coro20')]
        mopts[mn] = {'nthreads': 2, 'heap': 256, 'stack': 1024, 'preempt': True}
        head = core.decls(units + ['c14k_prologue']) + 'void c14k_epilogue(uint32_t);\nvoid c14k_e2(void) { c14k_epilogue(2); }\nvoid c14k_e1(void) { c14k_epilogue(1); }\n' + core.unit_selector(units)
        first = True
        pairs = [('L0_L1', 'c14k_locker0', 2, 'c14k_e2', 'two lockers'), ('L0_P', 'c14k_locker0', 4, 'c14k_e1', 'locker preempted by a TryLock prober'),
                 ('P_L0', 'c14k_prober', 1, 'c14k_e1', 'TryLock prober preempted by a locker')]
        for (nm, outer, inner, epi, what) in pairs:
            for k in range(-1, kmax):
                for spur in ([-1] if k >= 0 else [-1, 0, 1]):
                    e = 'c14_%s_%s_k%s%s' % (fifo[0], nm, 'none' if k < 0 else k, '' if spur < 0 else '_spur%d' % spur)
                    main = (head if first else '') + core.cube_entry(e, 'c14k_prologue', outer, inner, k, epi, kmax, '', spurious_at=spur, spurious_nondet=0)
                    first = False
                    queries.append({'name': e, 'module': mn, 'main': main, 'unwind': 6, 'timeout': 200, 'witness': 'any', 'family': 'c14_%s_%s' % (fifo[0], nm),
                                    'sample': 'Tier A, MutexImpl<FIFO=%s>: %s; inner unit at atomic operation #%s of the outer%s' % (fifo, what, 'after the end' if k < 0 else k, '' if spur < 0 else '; weak CAS #%d fails spuriously' % spur)})
    meta = {
        'rule': 'Per FIFO option x pair of units (locker/locker, locker/TryLock prober) x preemption index one query; a woken (parked) locker\'s continuation runs on the waking thread, as on an '
                'inline or single-worker executor. k=none queries also enumerate one spurious weak-CAS failure position.',
        'bounds': {'logical_threads': 2, 'lockers': 2, 'tier_A_kmax': kmax, 'rounds': 1,
                   'note': 'the all-interleavings (CBMC threads) encoding of this kernel gave no verdict in 900 s (2 and 3 threads) and is not used'},
        'stubs': ['parked coroutine = stub BaseCore; wake-up = Submit to its stub executor; continuation (critical section + UnlockHere) runs on the waking thread'],
        'assumptions': ['the coroutine awaiters (LockAwaiter/UnlockAwaiter/UnlockOnAwaiter/Guard*), batching hand-off with symmetric transfer, FIFO grant order with >= 2 parked coroutines and '
                        'several lock/unlock rounds are NOT covered: only the lock word protocol (TryLockAwait, AwaitLock, TryUnlockAwait, UnlockHereAwait, GetHead, TryLock, UnlockHere)',
                        'schedules with three parties or deeper interleavings are outside the claim'],
        'functions_filter': r'(MutexImpl|c14k)',
        'explanation': 'Real code: include/yaclib/coro/mutex.hpp detail::MutexImpl<FIFO,true> members named above, compiled in the C++20 coroutine configuration.',
    }
    return {'modules': modules, 'queries': queries, 'meta': meta, 'module_opts': mopts}


MANIFEST = {
    'level_text': 'Coroutine level: real coroutines through Lock/Unlock, Guard, Lock/UnlockHere, Lock/UnlockOn(e), GuardSticky on Mutex<Batching,FIFO> (<true,false> and <false,true>; all four in thorough): '
                  'for every well-nested schedule of two coroutine starts (third coroutine sequenced before), preemption at any atomic operation and inside critical sections: one holder at a time, TryLock only when free, '
                  'every request granted exactly once (also with inline executors = single thread), mutex free and frames released at quiescence. Kernel level: for the lock-word protocol of yaclib::Mutex (MutexImpl, FIFO on and off) the solver shows for every well-nested two-unit schedule of two lockers, or a locker and a TryLock prober '
                  '(preemption at any atomic operation, covering bound proved, one spurious weak-CAS failure): never two holders, TryLock succeeds only when free, every Lock request is granted exactly '
                  'once (a parked coroutine is always woken: no lost wake-up in the enqueue-vs-release window), the mutex is free at quiescence.',
    'level_note': '2 racing (+1 sequenced) coroutines, 1 round, well-nested schedules; FIFO grant order not asserted. Trusted: clang -O1 IR, ir2c, rt, cbmc. The C04 happens-before ghost runs inside the coroutine-level cubes: what one critical section wrote must be visible (ordered) in the next.',
    'technique': 'bounded model checking of the real code with solver-decided preemption cubes',
    'design_ref': 'DESIGN.md 4 C14',
}
