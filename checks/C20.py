"""C20 -- allocations: one per pipeline step (ghost allocation counter in the model of operator new)."""
from checks import pipe_common, when_common
import core


def plan(tier, seed, ctx):
    meta = {
        'rule': 'One query per generated pipeline; around each source creation, each Then*/Detach* call and MakeContract the ghost counter of operator new '
                'calls must grow by at most 1 (allocations made inside callback bodies for their own futures/tasks are subtracted by snapshots).',
        'explanation': 'Real code as C02; the counter lives in rt/vp_rt.c (every operator new overload reaches vp_malloc; malloc/aligned_alloc are not called by the encoded code: '
                       'the externals list of the evidence shows it).',
        'assumptions': ['Wait/Get/Strand allocation counts are decided inside the C11/C07 harnesses; the combinator clause is decided here for the dynamic forms over 2 vs 3 inputs; co_await is not covered'],
    }
    sel = (lambda p: True) if tier != 'quick' else (lambda p: hash(p.describe()) % 2 == 0 or len(p.steps) > 1)
    plan_ = pipe_common.make_plan('C20', tier, seed, ctx, ('eager', 'lazy'), meta, select=lambda p: (len(p.describe()) * 7 + len(p.steps)) % 2 == 0 or tier != 'quick')
    # combinator clause: the number of blocks does not depend on the number of inputs (dynamic form, 2 vs 3 plain futures)
    plan_['modules']['when'] = [('harness/C10_api.cpp', 'prod17')] + when_common.LIB
    plan_['module_opts']['when'] = {'nthreads': 1, 'heap': 4096, 'stack': 3072}
    for comb, cn in enumerate(('WhenAny', 'WhenAll', 'Join')):
        nm = 'c20_when_allocs_%d' % comb
        plan_['queries'].append({'name': nm, 'module': 'when', 'main': ('void c20_when_allocs(uint32_t);\n' if comb == 0 else '') + 'void %s(void) { vp_spurious_cfg = 0; vp_init(); c20_when_allocs(%d); }\n' % (nm, comb),
                                 'unwind': 8, 'timeout': 300, 'sample': '%s (dynamic form) over 2 and over 3 plain futures allocates the same, small number of blocks; everything is freed afterwards' % cn})
    return plan_


MANIFEST = {
    'level_text': 'For each enumerated pipeline the solver shows, for every payload, that Run/Schedule/MakeFuture/MakeTask/MakeContract and every Then*/Detach* step '
                  'perform at most one heap allocation regardless of callback signature, executor or unwrapping.',
    'level_note': 'Covers the per-step clause of C20 and the combinator clause (WhenAny/WhenAll/Join, dynamic form, 2 vs 3 inputs allocate the same number of blocks); the wait/strand clauses live in the C11/C07 harnesses, co_await is not claimed. Trusted: clang -O1 IR, ir2c, rt allocation model, cbmc.',
    'technique': 'bounded model checking with a ghost allocation counter over generated client programs',
    'design_ref': 'DESIGN.md 4 C20',
}
