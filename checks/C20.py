"""C20 -- allocations: one per pipeline step (ghost allocation counter in the model of operator new)."""
from checks import pipe_common


def plan(tier, seed, ctx):
    meta = {
        'rule': 'One query per generated pipeline; around each source creation, each Then*/Detach* call and MakeContract the ghost counter of operator new '
                'calls must grow by at most 1 (allocations made inside callback bodies for their own futures/tasks are subtracted by snapshots).',
        'explanation': 'Real code as C02; the counter lives in rt/vp_rt.c (every operator new overload reaches vp_malloc; malloc/aligned_alloc are not called by the encoded code: '
                       'the externals list of the evidence shows it).',
        'assumptions': ['combinators (WhenAll/WhenAny/Join) and Wait/Get/Strand/co_await allocation counts are decided by the C09/C10/C11/C07 checks where those exist; '
                        'this check covers the per-pipeline-step part of C20'],
    }
    sel = (lambda p: True) if tier != 'quick' else (lambda p: hash(p.describe()) % 2 == 0 or len(p.steps) > 1)
    return pipe_common.make_plan('C20', tier, seed, ctx, ('eager', 'lazy'), meta, select=lambda p: (len(p.describe()) * 7 + len(p.steps)) % 2 == 0 or tier != 'quick')


MANIFEST = {
    'level_text': 'For each enumerated pipeline the solver shows, for every payload, that Run/Schedule/MakeFuture/MakeTask/MakeContract and every Then*/Detach* step '
                  'perform at most one heap allocation regardless of callback signature, executor or unwrapping.',
    'level_note': 'Covers the per-step clause of C20; the combinator/wait clauses are not claimed by this check. Trusted: clang -O1 IR, ir2c, rt allocation model, cbmc.',
    'technique': 'bounded model checking with a ghost allocation counter over generated client programs',
    'design_ref': 'DESIGN.md 4 C20',
}
