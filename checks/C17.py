"""C17 (partial) -- reproducibility from the seed: 2-safety (self-composition) over the REAL decision layer of the fiber fault
runtime.  One encoding holds two instances of the whole module (= two processes, each with its own statics); a symbolic client
program (fiber scripts) runs (0) in a fresh process, (1) again in the same process after SetSeed + SetInjectorState, (2) in the
second process restored with ForwardToFaultRandomCount/SetInjectorState at the recorded point between its two phases.  The
solver decides that every observable decision of runs 1 and 2 equals run 0's."""
import os
import core

MODEL_RANDOM = '-I' + os.path.join(core.ROOT, 'harness', 'model_random')
LIB = ['src/fault/util.cpp', 'src/fault/injector.cpp', 'src/fault/inject.cpp', 'src/fault/atomic.cpp', 'src/fault/config.cpp',
       'src/fault/fiber/scheduler.cpp', 'src/fault/fiber/bidirectional_intrusive_list.cpp']
NACT = 3
ACTS = ['inject', 'cas', 'rand']
EMAX = 64

HEAD = r'''
uint64_t __CPROVER_uninterpreted_mt19937_64(uint64_t, uint64_t);
uint64_t vp_mt_draw(uint64_t seed, uint64_t index) {
#ifdef VP_CBMC
  uint64_t v = __CPROVER_uninterpreted_mt19937_64(seed, index);
  __CPROVER_assume((v >> 16) == 0);   /* stated bound: drawn values range over 16 bits (all residues of the small moduli in use stay reachable) */
  return v;
#else
  return seed * 6364136223846793005UL + index * 1442695040888963407UL;
#endif
}
static uint32_t c17_scr[8], c17_argv[8], c17_pick[8];
uint32_t vp_c17_script(uint32_t st) { return c17_scr[st & 7]; }
uint32_t vp_c17_arg(uint32_t st) { return c17_argv[st & 7]; }
uint32_t vp_c17_is_pick(uint32_t st) { return c17_pick[st & 7]; }
static uint64_t c17_log0[%(EMAX)d];
static int c17_n[3], c17_points, c17_b_start, c17_ended[3];
static uint64_t c17_rec[2][2]; static int c17_pts[2];
void vp_c17_log(uint32_t run, uint64_t ev) {
  uint64_t kind = ev >> 56;
  if (run == 0) {
    VP_ASSERT(c17_n[0] < %(EMAX)d, "VP-BOUND: more events than the log holds");
    c17_log0[c17_n[0]++] = ev;
    if (kind == 6 && c17_points < 2) { c17_rec[0][c17_points++] = ev & 0xffffffffffUL; if (c17_points == 2) c17_b_start = c17_n[0]; }
    if (kind == 7) c17_ended[0] = 1;
    return;
  }
  int pos = c17_n[run]++ + (run == 2 ? c17_b_start : 0);
  VP_ASSERT(pos < c17_n[0], "C17 the repeated run goes on after the original run had ended");
  uint64_t want = c17_log0[pos < %(EMAX)d ? pos : 0];
  if (kind == 2) VP_ASSERT(want == ev, "C17 an injected yield was not reproduced");
  if (kind == 3) VP_ASSERT(want == ev, "C17 a spurious weak-CAS failure was not reproduced");
  if (kind == 4) VP_ASSERT(want == ev, "C17 a client-visible random value was not reproduced");
  if (kind == 5) VP_ASSERT(want == ev, "C17 the scheduler picked a different fiber (sequence of fiber switches not reproduced)");
  if (kind == 6) {   /* the pair recorded by the re-run is USED (restore) rather than compared: only what it reproduces matters */
    VP_ASSERT((want >> 56) == 6, "C17 the repeated run reaches the record point at a different place");
    if (run == 1 && c17_pts[1] < 2) c17_rec[1][c17_pts[1]++] = ev & 0xffffffffffUL;
  }
  if (kind == 7) { VP_ASSERT(want == ev, "C17 the repeated run ended at a different point"); c17_ended[run] = 1; }
}
void c17_config_vpc1(uint32_t, uint32_t, uint32_t); void c17_config_vpc2(uint32_t, uint32_t, uint32_t);
void c17_run_vpc1(uint32_t, uint32_t, uint32_t); void c17_restore_vpc2(uint32_t, uint32_t, uint64_t, uint32_t);
uint32_t c17_injector_state_vpc1(void);
static void c17_program(uint32_t mask, uint32_t picks) {
  /* picks: 4 bits per step, 0 = an injection point / weak CAS / client random draw (symbolic which), n = the scheduler picks among n fibers */
  for (int st = 0; st < 8; st++) {
    uint32_t x = (uint32_t)nondet_u64(), y = (uint32_t)nondet_u64(), a = 99, g = 0;
    for (uint32_t k = 0; k < 3; k++) if ((mask >> k) & 1) { if (a == 99) a = k; else if (x %% 4 == k) a = k; }
    for (uint32_t k = 0; k < 6; k++) if (y == k) g = k;
    c17_scr[st] = a; c17_argv[st] = g; c17_pick[st] = (picks >> (4 * st)) & 15;
  }
}
static void c17_all(uint32_t mask, uint32_t picks, uint32_t freq, uint32_t cas, uint32_t pick, int reseeded_rerun, int restore) {
  vp_init();
  c17_program(mask, picks);
  uint32_t seed = (uint32_t)nondet_u64();
  c17_config_vpc1(freq, cas, pick);
  uint32_t i0 = c17_injector_state_vpc1();
  c17_run_vpc1(0, seed, i0);                                   /* a fresh process */
  VP_ASSERT(c17_ended[0], "harness: run 0 did not end");
  if (reseeded_rerun) {
    c17_run_vpc1(1, seed, i0);                                 /* the same process, re-seeded, injector reset */
    VP_ASSERT(c17_ended[1] && c17_n[1] == c17_n[0], "C17 the repeated run is shorter than the original");
  }
  if (restore) {
    c17_config_vpc2(freq, cas, pick);                          /* a new process restored at the point between the phases */
    int from = reseeded_rerun ? 1 : 0;                          /* the pair recorded by the original run, or by the re-run */
    c17_restore_vpc2(2, seed, c17_rec[from][0], (uint32_t)c17_rec[from][1]);
    VP_ASSERT(c17_ended[2] && c17_n[2] + c17_b_start == c17_n[0], "C17 the restored run is shorter than the original continuation");
  }
  VP_REACH("c17 end");
}
''' % {'EMAX': EMAX, 'NACT': NACT}


def plan(tier, seed, ctx):
    parts = [('harness/C17_sched.cpp', 'fiber20', (MODEL_RANDOM,))] + [(l, 'fiber20', (MODEL_RANDOM,)) for l in LIB]
    modules = {'c17': parts}
    queries = []
    # action sets (bit mask over ACTS) x configuration (yield frequency, weak-CAS failure frequency, scheduler pick width)
    # (name, action mask, scheduler picks: 4 bits per step = number of runnable fibers at that step or 0)
    progs = [('faults', 0b111, 0), ('pick1', 0b111, 0x00300000), ('pick2', 0b111, 0x00000020), ('inj', 0b001, 0x20000000)] if tier == 'quick' else \
            [('faults', 0b111, 0), ('pick1', 0b111, 0x00300000), ('pick2', 0b111, 0x00000020), ('pick3', 0b111, 0x00010000), ('pick4', 0b110, 0x30000000), ('inj', 0b001, 0x20000000)]
    cfgs = [(1, 2, 10), (2, 13, 1), (3, 0, 2)] if tier == 'quick' else [(1, 2, 10), (2, 13, 1), (3, 0, 2), (16, 13, 10), (4, 1, 3), (5, 3, 2)]   # yield frequency >= 1: SetFaultFrequency(0) makes Injector::Reset divide by zero (precondition, see DESIGN 8)
    first = True
    for (mn, mask, picks) in progs:
        for (freq, cas, pick) in cfgs:
            for (mode, rr, rs) in (('rerun', 1, 0), ('restore', 0, 1), ('rerun_restore', 1, 1)):
                nm = 'c17_%s_f%d_c%d_p%d_%s' % (mn, freq, cas, pick, mode)
                queries.append({'name': nm, 'module': 'c17', 'main': (HEAD if first else '') + 'void %s(void) { c17_all(%du, 0x%xu, %d, %d, %d, %d, %d); }\n' % (nm, mask, picks, freq, cas, pick, rr, rs),
                                'unwind': 12, 'unwindset': ['_ZNK6yaclib6detail5fiber6BiList10GetElementEmb%s.%d:5' % (c, l) for c in ('_vpc1', '_vpc2') for l in (0, 1, 2)],
                                'timeout': 600 if tier == 'quick' else 3000, 'witness': 'any',
                                'sample': 'client requests %s (symbolic which, 8 steps); scheduler picks at steps %s; yield frequency %d, weak-CAS failure frequency %d, pick width %d; %s' % (
                                    [a for i, a in enumerate(ACTS) if (mask >> i) & 1], {i: (picks >> (4 * i)) & 15 for i in range(8) if (picks >> (4 * i)) & 15}, freq, cas, pick,
                                    {'rerun': 'same process after SetSeed + SetInjectorState', 'restore': 'new process restored with ForwardToFaultRandomCount + SetInjectorState between the phases',
                                     'rerun_restore': 'new process restored from the (count, state) pair recorded by the in-process re-run'}[mode]), 'extra': ['--sat-solver', 'cadical']})
                first = False
    meta = {
        'rule': 'Self-composition: the seed and the client program (2 phases x 3 fibers x 3 actions out of %s, symbolic) are shared by three runs of the real code; run 0 records every '
                'observable decision (fiber resumed, injected yield, spurious weak-CAS failure, client-visible random value, fiber end, random count and injector state between the phases), '
                'runs 1 (same process, re-seeded, injector reset) and 2 (other process instance, restored at the record point) are compared with it event by event.' % ACTS,
        'bounds': {'fibers_per_phase': 3, 'actions_per_fiber': 3, 'phases': 2, 'seed': 'symbolic 32-bit', 'configurations': cfgs, 'events_per_run': EMAX},
        'stubs': ['std::mt19937_64 = an uninterpreted function of (seed, number of draws) (harness/model_random/random)',
                  'ExecutionContext (context switch): Resume runs the fiber\'s script until it suspends; the stack allocator returns empty allocations',
                  'fiber objects, the scheduler and the wait queue of every phase of every run live at different addresses (address-dependent decisions would differ)'],
        'assumptions': ['NOT covered: sleeping / timed waits / virtual time (Scheduler::Sleep*, system_clock.cpp, std::map sleep list), thread::join, thread-local proxies, the real swapcontext switch, '
                        'client programs that themselves read addresses or wall clocks, reproducibility across different builds',
                        'actions after a suspension point inside one library call (SleepPreemptive clean-up) are not modelled; scripts suspend only through yield / wait / injected yield'],
        'functions_filter': r'(Scheduler|Injector|Inject|GetRand|SetSeed|Forward|ShouldFail|BiList|FiberQueue|FiberBase|PollRandom|c17_)',
        'explanation': 'Real code: src/fault/{util,injector,inject,atomic,config}.cpp, src/fault/fiber/{scheduler,queue,fiber_base,bidirectional_intrusive_list,wakeup_helper}.cpp (YACLIB_FAULT=2).',
    }
    return {'modules': modules, 'queries': queries, 'meta': meta, 'module_copies': {'c17': ['_vpc1', '_vpc2']},
            'ir2c_opts': {'c17': {'ladder_funcs': [(r'fiber4Node5EraseEv', [0])], 'ladder_offsets': [48, 64, 80, 96, 112, 128], 'ladder_strict': True}},
            'module_opts': {'c17': {'nthreads': 1, 'heap': 128, 'stack': 1024, 'defines': ['VP_NARROW_DIV=1']}}}


MANIFEST = {
    'level_text': 'For symbolic seeds and symbolic client programs (2 phases x 3 fibers x 3 actions: injection points, yields, weak CAS, spawn, wait/notify, random draws) the solver decides over the real '
                  'scheduler / injector / random-count code that a re-run in the same process after SetSeed + SetInjectorState and a run in a new process restored with '
                  'ForwardToFaultRandomCount + SetInjectorState reproduce every fiber switch, injected yield, spurious CAS failure, random value and the (count, state) pair of the original.',
    'level_note': 'PARTIAL: sleeping, timed waits, virtual time, join, TLS proxies and the real context switch are outside; mt19937_64 is an uninterpreted function of (seed, draws). '
                  'Trusted: clang -O1 IR, ir2c, rt, cbmc.',
    'technique': 'bounded model checking of the real code: 2-safety by self-composition (two process instances in one encoding), uninterpreted random stream',
    'design_ref': 'DESIGN.md 4 C17',
}
