"""C17 -- not claimed."""
NOT_APPLICABLE = '2-safety (self-composition of two runs) over the real scheduler.cpp/util.cpp with swapcontext fibers as baton threads and mt19937_64 as an uninterpreted stream; not built in the time available'
