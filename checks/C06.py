"""C06 -- SharedFuture: every observer sees the one value once, never before it exists (Tier K over the shared callback list of base_core.cpp)."""
import core


def plan(tier, seed, ctx):
    modules = {'c06k': [('harness/C06_kernel.cpp', 'prod17'), ('src/algo/base_core.cpp', 'prod17'), ('src/exe/inline.cpp', 'prod17')]}
    fns = ['c06k_prologue', 'c06k_fulfil', 'c06k_observer0_inline', 'c06k_observer1_inline', 'c06k_observer1_setcb']
    head = core.decls(fns) + 'void c06k_epilogue(uint32_t);\nvoid c06k_e1(void) { c06k_epilogue(1); }\nvoid c06k_e0(void) { c06k_epilogue(0); }\n'
    Q = [('c06k_inline_inline', ['c06k_fulfil', 'c06k_observer0_inline', 'c06k_observer1_inline'], 'c06k_e1', 'fulfiller || two observers attaching with SetInline (Then/Subscribe/Share path)'),
         ('c06k_inline_setcb', ['c06k_fulfil', 'c06k_observer0_inline', 'c06k_observer1_setcb'], 'c06k_e0', 'fulfiller || SetInline observer || SetCallback observer (Connect/Wait path)')]
    queries = []
    for i, (nm, threads, epi, what) in enumerate(Q):
        queries.append({'name': nm, 'module': 'c06k', 'main': (head if i == 0 else '') + core.threaded_entry(nm, 'c06k_prologue', threads, epi),
                        'unwind': 4, 'timeout': 900 if tier == 'quick' else 3000, 'witness': 'any', 'sample': 'Tier K, ALL interleavings: ' + what})
    # ---- API level (Tier A): real SharedFuture / SharedPromise, three observers, fulfilment kinds value / StopTag / dropped promise
    modules['c06a'] = [('harness/C06_api.cpp', 'prod17'), ('src/algo/base_core.cpp', 'prod17'), ('src/exe/inline.cpp', 'prod17'), ('src/algo/drop_core.cpp', 'prod17')]
    units = ['c06a_attach_a', 'c06a_attach_b', 'c06a_attach_late', 'c06a_fulfil', 'c06a_pre_attach']
    kmax = 12 if tier == 'quick' else 16
    ahead = core.decls(units) + 'void c06a_prologue(uint32_t, uint32_t);\nvoid c06a_epilogue(uint32_t);\n' + core.unit_selector(units)
    # (tag, pre units, outer, inner, post units, observer mask)
    scen = [('a_f', [], 'c06a_attach_a', 'c06a_fulfil', ['c06a_attach_late'], 0b0111), ('f_a', [], 'c06a_fulfil', 'c06a_attach_a', ['c06a_attach_late'], 0b0111),
            ('pa_f_b', ['c06a_pre_attach', 'c06a_attach_a'], 'c06a_fulfil', 'c06a_attach_b', [], 0b1111), ('pa_b_f', ['c06a_pre_attach', 'c06a_attach_a'], 'c06a_attach_b', 'c06a_fulfil', [], 0b1111),
            ('a_b', ['c06a_pre_attach'], 'c06a_attach_a', 'c06a_attach_b', ['c06a_fulfil'], 0b1111), ('f_late', ['c06a_attach_a'], 'c06a_fulfil', 'c06a_attach_late', [], 0b0111)]
    firsta = True
    for kind in ((0, 1, 2) if tier != 'quick' else (0, 2)):
        for dfr in (0, 1):
            for (tag, pre, outer, inner, post, mask) in scen:
                for k in range(-1, kmax):
                    if tier == 'quick' and k >= 0 and (dfr == 1 and tag not in ('pa_f_b', 'pa_b_f') or kind == 2 and tag not in ('a_f', 'pa_f_b')):
                        continue
                    nm = 'c06a_%s_%s%s_k%s' % (('val', 'stop', 'drop')[kind], tag, '_d' if dfr else '', 'none' if k < 0 else k)
                    text = 'void %s(void) {\n  vp_spurious_cfg = 0; vp_spurious_at = -1;\n  vp_init();\n  c06a_prologue(%d, %d);\n' % (nm, kind, dfr)   # spurious weak-CAS failures of the list push: covered by the Tier K kernel
                    text += ''.join('  %s();\n' % f for f in pre)
                    text += '  vp_unit_sel = %d; vp_pre_k = %d; vp_pre_enabled = 1;\n  %s();\n' % (units.index(inner) + 1, k, outer)
                    if k < 0:
                        text += '  VP_ASSERT(vp_pre_count <= %d, "VP-BOUND: unit performs more atomic operations than there are preemption cubes");\n' % kmax
                    text += '  vp_run_pending_unit();\n  vp_pre_enabled = 0;\n' + ''.join('  %s();\n' % f for f in post) + '  c06a_epilogue(%d);\n}\n' % mask
                    queries.append({'name': nm, 'module': 'c06a', 'main': (ahead if firsta else '') + text, 'unwind': 8, 'timeout': 300, 'witness': 'any',
                                    'sample': 'Tier A (API): fulfilment=%s, executor of Then(e) %s; pre=%s outer=%s inner=%s at atomic operation #%s, post=%s' % (
                                        ('value', 'StopTag', 'promise dropped')[kind], 'deferred' if dfr else 'inline', pre, outer, inner, 'after the end' if k < 0 else k, post)})
                    firsta = False
    meta = {
        'rule': 'One CBMC-threads query per observer mix: every interleaving of the fulfiller (Store; SetResult; list walk; 3 DecRefs) with two observers pushing onto the lock-free list '
                '(weak CAS, spurious failure budget 1 per thread), payload symbolic.',
        'bounds': {'threads': 3, 'observers': 2, 'memory_words': 128, 'unwind': 4},
        'stubs': ['BaseCore subclass with a plain 2-word payload and an explicit atomic reference count; leaf InlineCore observers'],
        'assumptions': ['the copy-vs-move decision for the provably last observer (ResultCore::Impl, GetRef thresholds), SharedFuture copies created/destroyed concurrently, Split/Share/When*/co_await '
                        'wrappers are NOT covered by this check: only the list protocol they all go through',
                        '> 2 observers outside the bound'],
        'functions_filter': r'(BaseCore|c06k)',
        'explanation': 'Real code: base_core.cpp SetCallbackImpl<true>, SetInlineImpl<false,true>, SetResultImpl<false,true>, Loop/Step.',
    }
    return {'modules': modules, 'queries': queries, 'meta': meta,
            'module_opts': {'c06k': {'nthreads': 4, 'heap': 0, 'stack': 192, 'scalar_mem': True, 'defines': ('VP_NO_ALIVE=1',)},
                            'c06a': {'nthreads': 2, 'heap': 2048, 'stack': 3072, 'preempt': True}}}


MANIFEST = {
    'level_text': 'For the real shared-core list code of base_core.cpp the solver covers EVERY interleaving of one fulfiller with two observers (SetInline and SetCallback forms): each attached callback '
                  'fires exactly once and only with the complete value, a refused attach / Ready()==true implies the value is readable intact, and SetResult releases exactly its three references; through the public API, for every enumerated nesting of attaching observers and the fulfilment, every observer (by reference, by value, on an executor) sees the one value or the failure exactly once and the state is freed with its last handle.',
    'level_note': 'Kernel level: all interleavings, stub payload/refcount. API level (MakeSharedContract, copies, SubscribeInline / ThenInline / Then(e), Touch, Ready; value, StopTag, dropped promise; a value type whose move marks its source): sequentialised cubes, 3-4 observers, no spurious CAS failures. Trusted: clang -O1 IR, ir2c, rt, cbmc.',
    'technique': 'bounded model checking of the real code: CBMC partial-order thread encoding for the list kernel (all SC interleavings) + sequentialised schedule cubes over the public API',
    'design_ref': 'DESIGN.md 4 C06',
}
