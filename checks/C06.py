"""C06 -- SharedFuture: every observer sees the one value once, never before it exists (Tier K over the shared callback list of base_core.cpp)."""
import core


def plan(tier, seed, ctx):
    modules = {'c06k': [('harness/C06_kernel.cpp', 'prod17'), ('src/algo/base_core.cpp', 'prod17'), ('src/exe/inline.cpp', 'prod17')]}
    fns = ['c06k_prologue', 'c06k_fulfil', 'c06k_observer0_inline', 'c06k_observer1_inline', 'c06k_observer1_setcb']
    head = core.decls(fns) + 'void c06k_epilogue(uint32_t);\nvoid c06k_e1(void) { c06k_epilogue(1); }\nvoid c06k_e0(void) { c06k_epilogue(0); }\n'
    Q = [('c06k_inline_inline', ['c06k_fulfil', 'c06k_observer0_inline', 'c06k_observer1_inline'], 'c06k_e1', 'fulfiller || two observers attaching with SetInline (Then/Subscribe/Share path)'),
         ('c06k_inline_setcb', ['c06k_fulfil', 'c06k_observer0_inline', 'c06k_observer1_setcb'], 'c06k_e0', 'fulfiller || SetInline observer || SetCallback observer (Connect/Wait path)')]
    queries = []
    for i, (nm, threads, epi, what) in enumerate(Q):
        queries.append({'name': nm, 'module': 'c06k', 'main': (head if i == 0 else '') + core.threaded_entry(nm, 'c06k_prologue', threads, epi),
                        'unwind': 4, 'timeout': 900 if tier == 'quick' else 3000, 'witness': 'any', 'sample': 'Tier K, ALL interleavings: ' + what})
    meta = {
        'rule': 'One CBMC-threads query per observer mix: every interleaving of the fulfiller (Store; SetResult; list walk; 3 DecRefs) with two observers pushing onto the lock-free list '
                '(weak CAS, spurious failure budget 1 per thread), payload symbolic.',
        'bounds': {'threads': 3, 'observers': 2, 'memory_words': 128, 'unwind': 4},
        'stubs': ['BaseCore subclass with a plain 2-word payload and an explicit atomic reference count; leaf InlineCore observers'],
        'assumptions': ['the copy-vs-move decision for the provably last observer (ResultCore::Impl, GetRef thresholds), SharedFuture copies created/destroyed concurrently, Split/Share/When*/co_await '
                        'wrappers are NOT covered by this check: only the list protocol they all go through',
                        '> 2 observers outside the bound'],
        'functions_filter': r'(BaseCore|c06k)',
        'explanation': 'Real code: base_core.cpp SetCallbackImpl<true>, SetInlineImpl<false,true>, SetResultImpl<false,true>, Loop/Step.',
    }
    return {'modules': modules, 'queries': queries, 'meta': meta,
            'module_opts': {'c06k': {'nthreads': 4, 'heap': 0, 'stack': 192, 'scalar_mem': True, 'defines': ('VP_NO_ALIVE=1',)}}}


MANIFEST = {
    'level_text': 'For the real shared-core list code of base_core.cpp the solver covers EVERY interleaving of one fulfiller with two observers (SetInline and SetCallback forms): each attached callback '
                  'fires exactly once and only with the complete value, a refused attach / Ready()==true implies the value is readable intact, and SetResult releases exactly its three references.',
    'level_note': 'Kernel level only (stub payload/refcount); the SharedFuture API wrappers and the move-for-last-observer rule are not covered. Trusted: clang -O1 IR, ir2c, rt, cbmc.',
    'technique': 'bounded model checking of the real code under CBMC\'s partial-order thread encoding (all SC interleavings)',
    'design_ref': 'DESIGN.md 4 C06',
}
