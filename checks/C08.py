"""C08 -- not claimed."""
NOT_APPLICABLE = "needs std::thread start/join and mutex/condvar workers under real interleavings; the sequentialised scheduler has two logical threads and no thread-creation model, and list-based code under CBMC's thread encoding ran out of memory (strand.cpp: 12 GB / 17 min)"
