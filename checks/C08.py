"""C08 -- FairThreadPool: accepted jobs all run, rejected ones drop, Wait means done.  Real pool code over a modelled pthread/std::thread
boundary, sequentialised with three logical threads (worker, submitter, stopper)."""
import core

LIB = ['src/runtime/fair_thread_pool.cpp', 'src/util/intrusive_list.cpp', 'src/exe/inline.cpp']
STOPS = [('c08_stop', 0), ('c08_softstop', 1), ('c08_hardstop', 2)]


def entry(name, units, trig, kind, outer='c08_worker'):
    """units: [fn,...] pending units in order; trig: [(ctx, k), ...]"""
    s = 'void %s(void) {\n  vp_spurious_cfg = 0;\n  vp_init();\n  c08_prologue();\n  vp2_nunits = %d;\n' % (name, len(units))
    for u, (fn, (ctx, k)) in enumerate(zip(units, trig)):
        s += '  vp2_sel[%d] = %d; vp2_u_ctx[%d] = %d; vp2_u_k[%d] = %d;\n' % (u, ALL_UNITS.index(fn) + 1, u, ctx, u, k)
    s += '  vp2_enabled = 1;\n  %s();\n  vp2_run_rest();\n  vp2_enabled = 0;\n  c08_epilogue(%d);\n}\n' % (outer, kind)
    return s


ALL_UNITS = ['c08_submitter', 'c08_stop', 'c08_softstop', 'c08_hardstop', 'c08_worker', 'c08_resubmitter']


def plan(tier, seed, ctx):
    kw = 10 if tier == 'quick' else 14      # schedule points of the worker at which a pending unit may be triggered
    ks = 6 if tier == 'quick' else 8        # schedule points of the submitter at which the stopper may be triggered
    modules = {'c08': [('harness/C08_api.cpp', 'prod17')] + [(l, 'prod17') for l in LIB]}
    head = core.decls(ALL_UNITS + ['c08_prologue']) + 'void c08_epilogue(uint32_t);\nint vp2_sel[4];\nvoid vp_unit_run(int u) {\n' + \
        ''.join('  if (vp2_sel[u] == %d) { %s(); return; }\n' % (i + 1, f) for i, f in enumerate(ALL_UNITS)) + '}\n'
    queries = []
    first = [True]

    def add(name, text, what, fam):
        queries.append({'name': name, 'module': 'c08', 'main': (head if first[0] else '') + text, 'unwind': 8, 'timeout': 300, 'sample': what, 'witness': 'any', 'family': fam})
        first[0] = False
    NEVER = 99
    for (sf, kind) in STOPS:
        tag = sf[4:]
        # submitter at worker point k0 (or when the worker blocks: k0 = NEVER), stopper at worker point k1 >= k0 / when blocked
        for k0 in list(range(kw)) + [NEVER]:
            for k1 in [k for k in range(kw) if k >= k0 or k0 == NEVER] + [NEVER]:
                nm = 'c08_%s_S%s_T%s' % (tag, 'b' if k0 == NEVER else k0, 'b' if k1 == NEVER else k1)
                add(nm, entry(nm, ['c08_submitter', sf], [(0, k0), (0, k1)], kind),
                    '%s: submitter at worker schedule point %s, stopper at worker schedule point %s (b = when the worker blocks)' % (tag, k0, k1), 'c08_' + tag)
            # stopper inside the submitter
            for k1 in range(ks):
                nm = 'c08_%s_S%s_Tin%d' % (tag, 'b' if k0 == NEVER else k0, k1)
                add(nm, entry(nm, ['c08_submitter', sf], [(0, k0), (1, k1)], kind),
                    '%s: submitter at worker schedule point %s, stopper at schedule point %d of the submitter' % (tag, k0, k1), 'c08_' + tag)
            # stopper first, submitter afterwards (everything must be refused)
            nm = 'c08_%s_T%s_Safter' % (tag, 'b' if k0 == NEVER else k0)
            add(nm, entry(nm, [sf, 'c08_submitter'], [(0, k0), (0, NEVER)], kind),
                '%s: stopper at worker schedule point %s, submitter only when the worker blocks / at the end' % (tag, k0), 'c08_' + tag)
        # the SUBMITTER is the outer thread: at its schedule point k the stopper runs and then the worker runs (to its exit, if it was told to stop),
        # or the worker first and the stopper after it -- the worker finishes while a Submit is still in progress
        for k in range(ks + 2):
            nm = 'c08_%s_subm_T%d_W%d' % (tag, k, k)
            add(nm, entry(nm, [sf, 'c08_worker'], [(0, k), (0, k)], kind, outer='c08_submitter'),
                '%s: submitter is the outer thread; at its schedule point %d the stopper runs, then the worker' % (tag, k), 'c08_subm_' + tag)
            nm = 'c08_%s_subm_W%d_T%d' % (tag, k, k)
            add(nm, entry(nm, ['c08_worker', sf], [(0, k), (0, k)], kind, outer='c08_submitter'),
                '%s: submitter is the outer thread; at its schedule point %d the worker runs (until it blocks), then the stopper' % (tag, k), 'c08_subm_' + tag)
        # a job whose Drop()/Call() submits another job to the same pool (continuations do that): after the stop, and racing with it
        for k0 in [NEVER] + list(range(4)):
            nm = 'c08_%s_resubmit_T%s' % (tag, 'b' if k0 == NEVER else k0)
            add(nm, entry(nm, [sf, 'c08_resubmitter'], [(0, k0), (0, NEVER)], kind),
                '%s: stopper at worker schedule point %s, then a job is submitted whose Drop()/Call() submits a second job to the same pool' % (tag, k0), 'c08_resub_' + tag)
        nm = 'c08_%s_resubmit_first' % tag
        add(nm, entry(nm, ['c08_resubmitter', sf], [(0, NEVER), (0, NEVER)], kind),
            '%s: a job whose Call() submits a second job runs, the stopper afterwards' % tag, 'c08_resub_' + tag)
    meta = {
        'rule': 'Per stop kind one query per placement of the submitter (2 jobs) and the stopper relative to the single worker: each pending unit runs to completion at an enumerated schedule '
                'point of the worker (or of the submitter), or when the running thread blocks. Schedule points are every mutex, condition-variable and thread operation and the job bodies. All pool state '
                'is protected by the pool mutex, so interleaving at these points is what a data-race-free execution can show.',
        'bounds': {'workers': 1, 'jobs': 2, 'logical_threads': 3, 'worker_points': kw, 'submitter_points': ks, 'schedules': 'well-nested (a pending unit runs to completion where it is triggered)'},
        'stubs': ['pthread_mutex_lock/unlock, std::condition_variable::{wait,notify_one,notify_all}, std::thread::{_M_start_thread,join,hardware_concurrency} modelled in rt/vp_sync.c '
                  '(a blocked thread lets the pending units run; a block with nobody left = deadlock failure)', 'leaf jobs recording order/overlap/counts'],
        'assumptions': ['n > 1 workers, more than one level of re-submission, and schedules in which submitter and stopper mutually interleave more than one window deep are outside the claim',
                        'std::vector / std::unique_lock / std::thread wrapper code is encoded as instantiated by clang; libstdc++.so and glibc behind them are models'],
        'functions_filter': r'(FairThreadPool|List|c08_|thread)',
        'explanation': 'Real code: all of src/runtime/fair_thread_pool.cpp, src/util/intrusive_list.cpp.',
    }
    return {'modules': modules, 'queries': queries, 'meta': meta, 'module_opts': {'c08': {'nthreads': 4, 'heap': 1024, 'stack': 3072, 'preempt': True}}}


MANIFEST = {
    'level_text': 'For the real FairThreadPool with one worker, a submitter (2 jobs) and a thread calling Stop / SoftStop / HardStop, the solver decides for every enumerated well-nested placement of the '
                  'three threads at mutex/condvar/thread operations (and when a thread blocks): every job Called xor Dropped exactly once; without HardStop a job is dropped only by the Submit that is refused '
                  '(everything accepted runs); after Wait returns nothing runs; jobs start in submission order; SoftStop never drops an accepted job; no worker is left blocked forever (deadlock probe); '
                  'thread state and vector storage are released.',
    'level_note': '1 worker, 2 jobs (+ a job that re-submits from Call/Drop), worker-outer and submitter-outer nestings, modelled pthread/std::thread boundary (mutex model detects self-deadlock), well-nested schedules. Trusted: clang -O1 IR, ir2c, rt/vp_sync.c models, cbmc.',
    'technique': 'bounded model checking of the real code over a modelled thread/mutex/condvar boundary with solver-decided schedule cubes',
    'design_ref': 'DESIGN.md 4 C08',
}
