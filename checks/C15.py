"""C15 -- not claimed."""
NOT_APPLICABLE = 'SharedMutexImpl needs the spinlock plus two queues with at least three parties; the thread encoding gave no verdict for the simpler MutexImpl kernel in 900 s and no Tier A harness was built'
