"""C15 -- coroutine SharedMutex: writers exclude all, readers share, nobody is forgotten.  Real coroutines + real awaiters, Tier A."""
from checks import mutex_common


def plan(tier, seed, ctx):
    return mutex_common.make_plan('C15', tier, seed, ctx)


MANIFEST = {
    'level_text': 'For yaclib::SharedMutex (<FIFO,ReadersFIFO> = <true,false> default and <false,true>; all four in thorough) driven by real coroutines through Lock/LockShared/Guard/GuardShared and '
                  'UnlockHere/UnlockHereShared/guard destruction, the solver shows for every well-nested schedule of two coroutine starts with a third coroutine started before or after '
                  '(preemption at any atomic / spinlock operation and inside critical sections): an exclusive holder never overlaps any other holder, shared holders overlap only with each other, '
                  'Try* succeed only when compatible, every request is granted exactly once (nobody stays parked), the mutex is free at quiescence and frames are released.',
    'level_note': 'Spinlock is a model (harness/model_include); 2 racing + 1 sequenced coroutines, 1 round; well-nested schedules. Trusted: clang -O1 IR after CoroSplit, ir2c, rt, cbmc. The C04 happens-before ghost runs inside the coroutine-level cubes: what one critical section wrote must be visible (ordered) in the next.',
    'technique': 'bounded model checking of real coroutine + mutex code with solver-decided preemption cubes',
    'design_ref': 'DESIGN.md 4 C15',
}
