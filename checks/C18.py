"""C18 -- yaclib_std locks under fibers: the real fiber mutex / recursive_mutex / shared_mutex code against a model of the
cooperative fiber scheduler (sequentialised: fibers interleave only at FiberQueue::Wait)."""
import core

SRC = [('src/fault/fiber/mutex.cpp', 'fiber20'), ('src/fault/fiber/recursive_mutex.cpp', 'fiber20'), ('src/fault/fiber/shared_mutex.cpp', 'fiber20'),
       ('src/fault/fiber/bidirectional_intrusive_list.cpp', 'fiber20')]


def entry(name, pro, outer, inner_idx):
    return ('void %s(void) {\n  vp_spurious_cfg = 0;\n  vp_init();\n  %s();\n  vp_unit_sel = %d; vp_pre_k = -1; vp_pre_enabled = 1;\n  %s();\n'
            '  vp_run_pending_unit();\n  vp_pre_enabled = 0;\n  c18_epilogue();\n}\n' % (name, pro, inner_idx, outer))


def entry_n(name, pro, outer, inner_idxs, n):
    s = 'void %s(void) {\n  vp_spurious_cfg = 0;\n  vp_init();\n  %s();\n  vp2_nunits = %d;\n' % (name, pro, len(inner_idxs))
    for u, i in enumerate(inner_idxs):
        s += '  vp2_sel[%d] = %d; vp2_u_ctx[%d] = 0; vp2_u_k[%d] = -1;\n' % (u, i, u, u)
    return s + '  vp2_enabled = 1;\n  %s();\n  vp2_run_rest();\n  vp2_enabled = 0;\n  c18_epilogue_n(%d);\n}\n' % (outer, n)


def plan(tier, seed, ctx):
    modules = {'c18': [('harness/C18_seq.cpp', 'fiber20')] + SRC}
    units = []
    scen = []
    for t in ('mutex', 'rec', 'shex'):
        units += ['c18_%s_A_unlock' % t, 'c18_%s_A_unlock_C_try' % t]
        scen += [('c18_%s_wake' % t, 'c18_%s_pro' % t, 'c18_%s_B' % t, 'c18_%s_A_unlock' % t, t),
                 ('c18_%s_barge' % t, 'c18_%s_pro' % t, 'c18_%s_B' % t, 'c18_%s_A_unlock_C_try' % t, t)]
    units += ['c18_shared_A_unlock', 'c18_shared_A_unlock_C_try']
    scen += [('c18_shsh_wake', 'c18_shex_pro', 'c18_shsh_B', 'c18_shex_A_unlock', 'shsh'),          # shared waiter behind an exclusive holder
             ('c18_exsh_wake', 'c18_shared_pro', 'c18_shex_B', 'c18_shared_A_unlock', 'exsh'),      # exclusive waiter behind a shared holder
             ('c18_exsh_barge', 'c18_shared_pro', 'c18_shex_B', 'c18_shared_A_unlock_C_try', 'exsh')]
    lockers = ['c18_%s_L%d' % (t, i) for t in ('mutex', 'rec', 'shex', 'shsh') for i in (2, 3, 4)]
    units += lockers
    fns = set(units + ['c18_epilogue', 'c18_try_contracts', 'c18_shsh_B', 'c18_shared_pro'] + [s[1] for s in scen] + [s[2] for s in scen])
    head = core.decls(sorted(fns)) + core.unit_selector(units) + 'void c18_epilogue_n(uint32_t);\nint vp2_sel[4];\nvoid vp_unit_run(int u) {\n' + \
        ''.join('  if (vp2_sel[u] == %d) { %s(); return; }\n' % (i + 1, f) for i, f in enumerate(units)) + '}\n'
    queries = [{'name': 'c18_try_contracts_q', 'module': 'c18', 'main': head + 'void c18_try_contracts_q(void) { vp_init(); c18_try_contracts(); }\n', 'unwind': 4, 'timeout': 200,
                'sample': 'try_lock / try_lock_shared contracts of mutex, recursive_mutex, shared_mutex (no blocking)'}]
    for (nm, pro, outer, inner, fam) in scen:
        queries.append({'name': nm, 'module': 'c18', 'main': entry(nm, pro, outer, units.index(inner) + 1), 'unwind': 4, 'timeout': 200, 'witness': 'any', 'family': 'c18_' + fam,
                        'sample': 'fiber A holds (%s); fiber B blocks in %s; while B is parked the other fibers run %s; then B continues' % (pro, outer, inner)})
    # several parked lockers: holder A (prologue), 2 or 3 lockers park one inside the other, then A releases; NotifyOne picks any parked fiber
    multi = []
    for t in ('mutex', 'rec'):
        multi += [(t, 'c18_%s_pro' % t, ['c18_%s_L2' % t, 'c18_%s_L3' % t], 'c18_%s_A_unlock' % t), (t, 'c18_%s_pro' % t, ['c18_%s_L2' % t, 'c18_%s_L3' % t, 'c18_%s_L4' % t], 'c18_%s_A_unlock' % t)]
    for (pro, rel, hn) in (('c18_shex_pro', 'c18_shex_A_unlock', 'hx'), ('c18_shared_pro', 'c18_shared_A_unlock', 'hs')):
        for modes in (('shex', 'shex'), ('shex', 'shsh'), ('shsh', 'shex'), ('shsh', 'shsh'), ('shex', 'shex', 'shex'), ('shex', 'shsh', 'shex'), ('shsh', 'shex', 'shsh'), ('shsh', 'shsh', 'shex'), ('shex', 'shsh', 'shsh')):
            multi.append(('shared_' + hn, pro, ['c18_%s_L%d' % (m, i + 2) for i, m in enumerate(modes)], rel))
    for (t, pro, ls, rel) in multi:
        nm = 'c18_multi_%s_%s' % (t, '_'.join(l.split('_')[1][-2:] + l[-1] for l in ls))
        queries.append({'name': nm, 'module': 'c18', 'main': entry_n(nm, pro, ls[0], [units.index(x) + 1 for x in ls[1:] + [rel]], len(ls)), 'unwind': 6, 'timeout': 300, 'witness': 'any',
                        'family': 'c18_multi_' + t, 'sample': 'fiber A holds (%s); fibers %s call lock()/lock_shared() one after the other and park; A releases (%s); NotifyOne wakes any of them' % (pro, ls, rel)})
    meta = {
        'rule': 'One query per lock type x scenario {the holder releases; the holder releases and a third fiber barges in with try_lock}: ghost holder sets updated on successful return must never '
                'show two exclusive holders or exclusive+shared; a parked locker that nobody made runnable although the lock is available is a lost wake-up.',
        'bounds': {'fibers': 4, 'blocking_fibers': 3, 'lock_types': ['mutex', 'recursive_mutex', 'shared_mutex (exclusive and shared)']},
        'stubs': ['FiberQueue::{Wait(NoTimeoutTag), NotifyOne, NotifyAll, Empty} and Scheduler::GetId are a MODEL of the fiber scheduler (harness/C18_seq.cpp): a parked fiber yields to the other '
                  'fibers of the scenario; notify marks it runnable', 'GetRandNumber = any value below max'],
        'assumptions': ['timed mutexes, condition_variable, thread::join, thread-local proxies and the real queue.cpp/scheduler.cpp are NOT covered by this check',
                        'up to three fibers park at once; a wake-up order is explored when it can be expressed by nesting (the innermost parked fiber resumes first) -- the other orders are covered by the scenario with the arrival order mirrored, since NotifyOne picks a random parked fiber regardless of arrival order; injected yields inside the lock functions are not modelled (cooperative fibers switch only at Wait)'],
        'functions_filter': r'(Mutex|c18_)',
        'explanation': 'Real code: src/fault/fiber/mutex.cpp, recursive_mutex.cpp, shared_mutex.cpp (compiled with YACLIB_FAULT=2).',
    }
    return {'modules': modules, 'queries': queries, 'meta': meta, 'module_opts': {'c18': {'nthreads': 4, 'heap': 256, 'stack': 768, 'preempt': True}}}


MANIFEST = {
    'level_text': 'For the real fiber mutex, recursive_mutex and shared_mutex code and a model of the cooperative scheduler the solver decides, for each lock type, that a blocked locker is woken '
                  'when the holder releases, that a woken locker never ends up holding the lock together with a fiber that barged in meanwhile (exclusive/exclusive, exclusive/shared), and the '
                  'try_lock / try_lock_shared success and failure contracts incl. recursive re-entry.',
    'level_note': 'up to 4 fibers, up to 3 parked at once; scheduler and FiberQueue are modelled, not encoded; timed locks, condition variables, join and TLS are not covered. Trusted: clang -O1 IR, ir2c, rt, cbmc.',
    'technique': 'bounded model checking of the real lock code against a scheduler model (sequentialised cooperative fibers)',
    'design_ref': 'DESIGN.md 4 C18',
}
