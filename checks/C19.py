"""C19 -- yaclib_std::atomic computes exactly what std::atomic computes (inductive step, differential, sequential)."""
import os
import re
import subprocess
import core

TYPES = {'tbool': 'B', 'ti8': 'I', 'tu8': 'I', 'ti16': 'I', 'tu16': 'I', 'ti32': 'I', 'tu32': 'I', 'ti64': 'I', 'tu64': 'I',
         'tptr': 'P', 'tf32': 'F', 'tf64': 'F', 'tflag': 'G'}
OPS_B = ['load', 'store', 'conv', 'exchange', 'casw2', 'casw1', 'cass2', 'cass1', 'fence']
OPS_A = ['fetch_add', 'fetch_sub', 'op_add', 'op_sub']
OPS_P = ['pre_inc', 'post_inc', 'pre_dec', 'post_dec']
OPS_I = ['fetch_and', 'fetch_or', 'fetch_xor', 'op_and', 'op_or', 'op_xor']


def ops_of(cls):
    return {'B': OPS_B, 'I': OPS_B + OPS_A + OPS_P + OPS_I, 'P': OPS_B + OPS_A + OPS_P, 'F': OPS_B + OPS_A,
            'G': ['tas', 'clear']}[cls]


def plan(tier, seed, ctx):
    modules = {'c19': [
        ('harness/C19_cmp.cpp', 'prod20', (), None),
        ('harness/C19_step.cpp', 'prod20', ('-DVP_PFX=p0',), 'p0.'),
        ('harness/C19_step.cpp', 'thread20', ('-DVP_PFX=p1',), 'p1.'),
        ('harness/C19_step.cpp', 'fiber20', ('-DVP_PFX=p2',), 'p2.'),
        ('src/fault/atomic.cpp', 'thread20', (), None),
    ]}
    queries = []
    for t, cls in TYPES.items():
        ops = ops_of(cls)
        decl = '\n'.join('void c19_%s_%s(void);' % (t, o) for o in ops)
        calls = '\n'.join('  c19_%s_%s();' % (t, o) for o in ops)
        main = '%s\nvoid c19_%s(void) {\n  vp_init();\n%s\n}\n' % (decl, t, calls)
        queries.append({'name': 'c19_' + t, 'module': 'c19', 'main': main, 'unwind': 4, 'timeout': 600 if tier == 'quick' else 3000,
                        'sample': 'T=%s: one step of each of %s from an arbitrary stored value with arbitrary operands, '
                                  'STD vs THREAD vs FIBER' % (t, ops)})
    meta = {
        'rule': 'One CBMC query per type T; inside it one differential obligation set per operation: the stored value and both '
                'operands are unconstrained 64-bit symbols truncated to T (bool restricted to {0,1}); because the pre-state is '
                'arbitrary one step covers operation sequences of any length executed by one thread.',
        'bounds': {'types': sorted(TYPES), 'ops_per_type': {t: len(ops_of(c)) for t, c in TYPES.items()},
                   'sequence_length': 'unbounded by induction over the stored value (the whole state of the object)',
                   'spurious_failures_per_weak_cas': 1, 'unwind': 4},
        'stubs': ['yaclib::InjectFault() = no-op (a yield cannot change a single thread\'s values)',
                  'yaclib::detail::GetRandNumber(max) = any value < max (so ShouldFailAtomicWeak, real code, is a free Boolean)',
                  'cmpxchg weak in the std::atomic reference may fail spuriously once'],
        'assumptions': ['operator= on yaclib_std::atomic is not exercised: it does not compile for the THREAD/FIBER wrappers '
                        '(hidden by the implicitly deleted copy assignment), so no behaviour exists to compare',
                        'atomics of user class types, atomic_ref, wait/notify (YACLIB_FUTEX=0) are outside the claim',
                        'memory-order effects are C04\'s subject, not this check\'s'],
        'functions_filter': r'(Atomic|atomic|step_p|ShouldFail)',
        'explanation': 'Differential inductive step over the real template code of include/yaclib/fault/detail/{atomic,atomic_flag}.hpp, '
                       'include/yaclib/fault/detail/fiber/{atomic,atomic_flag,atomic_wait}.hpp and src/fault/atomic.cpp, selected through '
                       'yaclib_std/atomic exactly as a client gets it in each YACLIB_FAULT configuration.',
    }
    return {'modules': modules, 'queries': queries, 'meta': meta, 'replay': replay,
            'module_opts': {'c19': {'defines': ('VP_UF_FLOAT=1',), 'heap': 1024, 'stack': 2048}}}


def replay(q, viol, inputs, ctx):
    """Native replay: the same step functions compiled by g++ against the real headers, run on the solver's inputs."""
    cp, desc = viol
    m = re.search(r'T=(\w+) op=(\w+) backend=(\w+)', desc)
    if not m:
        return None, 'assertion is not a C19 comparison (memory-model assertion): ' + desc
    t, op, be = m.groups()
    out = os.path.join(ctx['outdir'], 'replay')
    os.makedirs(out, exist_ok=True)
    objs = []
    for i, cfg in enumerate(['prod20', 'thread20', 'fiber20']):
        cfgdir = core.gen_config(cfg, out)
        o = os.path.join(out, 'step%d.o' % i)
        r = core.sh(['g++', '-std=c++20', '-O1', '-c', '-I' + core.REPO + '/include', '-I' + core.REPO + '/src', '-I' + cfgdir,
                     '-I' + core.ROOT + '/harness', '-DVP_PFX=p%d' % i, core.ROOT + '/harness/C19_step.cpp', '-o', o])
        if r.returncode:
            return None, 'native build failed: ' + r.stdout[-800:]
        objs.append(o)
    cfgdir = core.gen_config('thread20', out)
    main = os.path.join(out, 'main.cpp')
    open(main, 'w').write('extern "C" void c19_%s_%s(); extern "C" void vp_native_begin(); int main(){ vp_native_begin(); c19_%s_%s(); return 0; }\n' % (t, op, t, op))
    exe = os.path.join(out, 'replay_c19')
    r = core.sh(['g++', '-std=c++20', '-O1', '-I' + core.REPO + '/include', '-I' + core.REPO + '/src', '-I' + cfgdir, '-I' + core.ROOT + '/harness',
                 main, core.ROOT + '/harness/C19_cmp.cpp', core.REPO + '/src/fault/atomic.cpp', core.ROOT + '/replay/vp_native.cpp'] + objs + ['-o', exe])
    if r.returncode:
        return None, 'native link failed: ' + r.stdout[-800:]
    # the trace lists the nondets of all operations executed before the failing one; the failing op's own are the last 3+
    # -> search the suffixes for a reproducing triple (GetRandNumber draws follow the 3 operands).
    for start in range(len(inputs) - 1, -1, -1):
        vec = inputs[start:]
        inp = os.path.join(out, 'input.txt')
        open(inp, 'w').write(' '.join(str(v) for v in vec))
        rr = subprocess.run([exe], env=dict(os.environ, VP_INPUT=inp), stdout=subprocess.PIPE, stderr=subprocess.STDOUT, text=True, timeout=20)
        if 'VP-FAIL' in rr.stdout and ('op=%s ' % op) in rr.stdout and ('T=%s ' % t) in rr.stdout:
            return True, 'native g++ build of the real headers fails on inputs %s:\n%s' % (vec, rr.stdout.strip())
    return False, 'no suffix of the solver inputs %s reproduced natively' % inputs

MANIFEST = {
    'level_text': 'For every T in {bool, 8..64-bit signed/unsigned, int*, float, double} and every operation of yaclib_std::atomic<T> '
                  '(and atomic_flag, fences) the SAT solver decides, for ALL stored values and operands, that the THREAD wrapper and the FIBER '
                  're-implementation return/store/write back exactly what std::atomic does (compare_exchange_weak: the std contract, with the '
                  'injected spurious failure a free Boolean). The pre-state is arbitrary, so one step covers sequences of any length by induction; '
                  'bounded only by the type list. Counterexamples are replayed on a native g++ build of the real headers.',
    'level_note': 'Trusted: clang -O1 IR as the meaning of the headers, ir2c translation, rt/vp_rt.c atomics model, cbmc/SAT; float +,- are '
                  'uninterpreted functions over bit patterns (sound for "holds"; a counterexample must reproduce natively). operator= is not '
                  'covered (does not compile for the wrappers); atomic_ref / wait-notify / class-type atomics outside.',
    'technique': 'differential inductive-step bounded model checking (LLVM IR -> C -> CBMC/SAT), 3 builds of one harness',
    'design_ref': 'DESIGN.md 4 C19',
}
