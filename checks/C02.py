"""C02 -- a pipeline computes what its steps say: routing, recovery, unwrapping (sequential, programs enumerated, payload symbolic)."""
from checks import pipe_common


def plan(tier, seed, ctx):
    meta = {
        'rule': 'One query per generated pipeline program (source x callback signature x return kind x behaviour x attach form x executor mode, '
                'eager and lazy); the solver decides for every payload that final Result state/value and the ordered list of invoked callbacks '
                'equal the reference interpreter\'s sequential reading.',
        'explanation': 'Real code: core.hpp (Core::Call/Drop/Here/CallImpl/CallResolveState/CallResolveAsync/Done), func_core.hpp, promise_core.hpp, '
                       'result.hpp, run.hpp, schedule.hpp, make.hpp (async+lazy), task.hpp/task_impl.cpp, base_core.cpp, drop_core.cpp, inline.cpp.',
    }
    return pipe_common.make_plan('C02', tier, seed, ctx, ('eager',) if tier == 'quick' else ('eager', 'lazy'), meta)


MANIFEST = {
    'level_text': 'For each enumerated pipeline shape (all callback signature classes x return kinds incl. Result/Future/Task unwrapping x throw/no throw x '
                  'ThenInline/Then(e)/inherited/stopped executor x ready/contract/Run/Schedule sources, eager and lazy, length <= 2 quick / 3 thorough) the '
                  'solver shows for every payload that the final Result and the ordered set of invoked callbacks equal the sequential reading; each program '
                  'is additionally executed natively against the real library (oracle/encoder validation).',
    'level_note': 'Programs are enumerated (compile-time template instantiations), only payloads are symbolic; V=int, E=StopError; coroutine and SharedFuture '
                  'sources are outside this check. Trusted: clang -O1 IR, ir2c, rt model, cbmc.',
    'technique': 'bounded model checking of generated client programs over the real library IR against a reference interpreter',
    'design_ref': 'DESIGN.md 4 C02',
}
