"""C04 -- no data races / visibility, PARTIAL: happens-before ghost (vector clocks driven by the memory orders in the IR) over the
Tier K kernels.  Explores sequentially consistent interleavings only; see MANIFEST level_note for what that leaves out."""
import importlib
import core

HOSTS = ['C01', 'C06', 'C11', 'C16']


def plan(tier, seed, ctx):
    modules, mopts, queries = {}, {}, []
    for h in HOSTS:
        hp = importlib.import_module('checks.' + h).plan(tier, seed, ctx)
        for q in hp['queries']:
            mo = hp['module_opts'].get(q['module'], {})
            if not mo.get('scalar_mem'):
                continue  # only Tier K (thread-encoded) kernels carry the ghost
            mn = q['module'] + '_hb'
            if mn not in modules:
                modules[mn] = hp['modules'][q['module']]
                o = dict(mo)
                o['hb'] = True
                mopts[mn] = o
            q2 = dict(q)
            q2['module'] = mn
            q2['name'] = q['name'] + '_hb'
            q2['entry'] = q.get('entry', q['name'])
            q2['sample'] = 'happens-before ghost on: ' + q.get('sample', '')
            q2['timeout'] = max(q.get('timeout', 300), 900)
            queries.append(q2)
    meta = {
        'rule': 'Every Tier K kernel query of C01, C06, C11 and C16 is re-run with the happens-before ghost: per-thread vector clocks, a release clock per atomic word, acquire/release fence '
                'clocks, all driven by the memory_order operands found in the IR (release sequences through RMWs, relaxed stores reset them, fences as in [atomics.fences]); the plain payload '
                'accesses of the harness (write before fulfilment / Done, read after each kind of completion observation) assert FastTrack\'s write->read and write->write conditions.',
        'bounds': {'threads': '<= 4', 'tracked_plain_variables': '1-2 per kernel', 'executions': 'sequentially consistent interleavings only'},
        'stubs': ['as the host kernels'],
        'assumptions': ['executions that are not sequentially consistent are NOT explored: a defect that only shows through a non-SC outcome of relaxed atomics while all SC executions are race-free is outside the claim',
                        'only the designated payload accesses are tracked, not every plain access of the library; Strand, Mutex/SharedMutex, FairThreadPool, When* ordering are not covered (no Tier K kernel for them)',
                        'reference-count destruction ordering is not tracked'],
        'functions_filter': r'(BaseCore|OneShotEvent|AtomicCounter|WaitRange|c01k|c06k|c11k|c16k)',
        'explanation': 'Ghost in rt/vp_rt.c (VP_HB). Real code as the host kernels: base_core.cpp (unique and shared words), one_shot_event.cpp, atomic_counter.hpp (SubEqual release + acquire fence), wait_impl.hpp.',
    }
    return {'modules': modules, 'queries': queries, 'meta': meta, 'module_opts': mopts}


MANIFEST = {
    'level_text': 'PARTIAL claim. For the kernels of the Future/Promise word, the shared-core list, WaitRange and OneShotEvent/WaitGroup the solver shows, over every sequentially consistent interleaving, that '
                  'what the producer wrote before fulfilling (resp. before Done) is ordered by happens-before - as defined by the memory orders actually present in the compiled code - before every read made '
                  'after observing completion (continuation, Ready()==true, Wait return, released waiter). A memory order weakened to relaxed, a dropped fence or a store where an RMW is needed breaks the '
                  'clock propagation and fails the assertion although behaviour under SC (and on x86) is unchanged.',
    'level_note': 'NOT the full property: only SC interleavings are explored (CBMC has no C++11 memory model), only designated payload accesses are tracked, and Strand / Mutex / SharedMutex / thread pool / '
                  'combinator orderings and refcount-destruction ordering are not covered. Trusted: clang -O1 IR (memory orders as emitted), ir2c, the ghost in rt/vp_rt.c, cbmc.',
    'technique': 'bounded model checking under CBMC\'s thread encoding with a vector-clock happens-before ghost driven by the IR\'s memory orders',
    'design_ref': 'DESIGN.md 4 C04',
}
