"""C04 -- not claimed."""
NOT_APPLICABLE = "needs executions under the C++ memory model that are not sequentially consistent; CBMC's --mm tso/pso are hardware models and the planned vector-clock (happens-before) instrumentation was not built; SC-only race freedom would not decide the stated property"
