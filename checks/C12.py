"""C12 -- a Task does nothing until started, then behaves like the same eager pipeline (sequential, lazy programs)."""
from checks import pipe_common


def plan(tier, seed, ctx):
    meta = {
        'rule': 'One query per generated LAZY pipeline (MakeTask/Schedule source, Then/ThenInline/Then(e) steps) x start mode {ToFuture, ToFuture(e), Detach, '
                'Detach(e), never started (dropped)}: nothing is invoked or submitted before the start call; afterwards final Result and invoked callbacks equal '
                'the reference interpreter, which is the same interpreter that C02 validates for the eager form of the same pipeline.',
        'explanation': 'Real code: task.hpp, task_impl.cpp (Start, MoveToCaller), lazy SetCallback branch of core.hpp, schedule.hpp, lazy/make.hpp (ReadyCore).',
    }
    return pipe_common.make_plan('C12', tier, seed, ctx, ('lazy',), meta)


MANIFEST = {
    'level_text': 'For each enumerated lazy pipeline x start/abandon mode the solver shows for every payload: empty observation log and zero executor submissions '
                  'before the start call; after start each step at most once, in pipeline order, final Result equal to the sequential reading (= what the eager '
                  'twin produces, C02); a never-started Task invokes no value callback, delivers StopError to Result/error callbacks, destroys every captured '
                  'functor exactly once and leaves nothing allocated.',
    'level_note': 'Programs enumerated, payload symbolic; blocking Get and coroutine starts (co_await task, Await) are outside this check. Trusted: clang -O1 IR, ir2c, rt model, cbmc.',
    'technique': 'bounded model checking of generated lazy client programs over the real library IR against a reference interpreter',
    'design_ref': 'DESIGN.md 4 C12',
}
