"""pipe_common.py -- plan builder shared by the pipeline-based checks (C02, C03, C05, C12, C20) + native pre-validation."""
import os
import subprocess
import core
from checks import pipegen

LIB = ['src/algo/base_core.cpp', 'src/exe/inline.cpp', 'src/algo/drop_core.cpp', 'src/lazy/task_impl.cpp']
CHUNK = 24


def make_plan(pid, tier, seed, ctx, forms, meta, mode=None, select=None):
    mode = mode or pid
    progs = pipegen.program_set(tier, seed, forms)
    if select:
        progs = [p for p in progs if select(p)]
    gen_dir = os.path.join(ctx['outdir'], 'gen')
    os.makedirs(gen_dir, exist_ok=True)
    modules, queries, mopts = {}, [], {}
    names = []
    for ci in range(0, len(progs), CHUNK):
        chunk = progs[ci:ci + CHUNK]
        named = [('%s_p%03d' % (pid.lower(), ci + j), p) for j, p in enumerate(chunk)]
        names += named
        src = os.path.join(gen_dir, '%s_chunk%02d.cpp' % (pid.lower(), ci // CHUNK))
        open(src, 'w').write(pipegen.gen_tu(named, mode))
        mname = '%s_m%02d' % (pid.lower(), ci // CHUNK)
        modules[mname] = [(src, 'prod17')] + [(l, 'prod17') for l in LIB]
        mopts[mname] = {'nthreads': 1, 'heap': 2048, 'stack': 3072}
        first = True
        for (n, p) in named:
            main = (core.decls([x for x, _ in named]) if first else '') + 'void q_%s(void) { vp_init(); %s(); }\n' % (n, n)
            first = False
            queries.append({'name': 'q_' + n, 'module': mname, 'main': main, 'unwind': 20, 'timeout': 200 if tier == 'quick' else 900,
                            'sample': p.describe(), 'program': p})
    ctx['programs'] = names
    ctx['gen_dir'] = gen_dir
    meta = dict(meta)
    meta.setdefault('bounds', {})
    meta['bounds'].update({'programs': len(progs), 'max_pipeline_length': max(len(p.steps) for p in progs),
                           'V': 'int', 'E': 'StopError', 'payload': 'symbolic 32-bit', 'seed_dependent_programs': 40 if tier == 'quick' else 400})
    meta.setdefault('stubs', [])
    meta['stubs'] += ['stub executors A, B (run the job inline or defer it to a drain loop; per-program constant) and S (stopped: Drops)',
                      'operator new never fails; exception objects and std::exception_ptr modelled in flat memory (rt/vp_rt.c)']
    meta.setdefault('assumptions', [])
    meta['assumptions'] += ['programs are enumerated by checks/pipegen.py (fixed base set + VERIF_SEED-dependent random extras); '
                            'pipelines longer than the stated bound and value types other than int are outside the claim',
                            'the expected outcome comes from the generator\'s reference interpreter (the sequential reading of the pipeline), '
                            'pre-validated on this run against a native g++ build of the real library for every program']
    meta['functions_filter'] = r'(Core|Future|Task|Promise|Result|Schedule|Run|MakeTask|MakeFuture|Start|Drop)'
    return {'modules': modules, 'queries': queries, 'meta': meta, 'module_opts': mopts,
            'post': lambda ev, qs, rs, c: post(pid, mode, ev, qs, rs, c), 'replay': lambda q, v, i, c: replay(pid, mode, q, v, i, c)}


def native_build(pid, mode, ctx, only=None):
    """g++ build of the generated programs against the real library; returns exe path."""
    out = os.path.join(ctx['outdir'], 'native')
    os.makedirs(out, exist_ok=True)
    exe = os.path.join(out, 'pipes_native')
    if os.path.exists(exe):
        return exe
    cfgdir = core.gen_config('prod17', out)
    inc = ['-I' + core.REPO + '/include', '-I' + core.REPO + '/src', '-I' + cfgdir, '-I' + core.ROOT + '/harness']
    srcs = sorted(os.path.join(ctx['gen_dir'], f) for f in os.listdir(ctx['gen_dir']) if f.endswith('.cpp'))
    names = [n for n, _ in ctx['programs']]
    main = os.path.join(out, 'main.cpp')
    with open(main, 'w') as f:
        f.write('#include <cstring>\n#include <cstdio>\nextern "C" void vp_native_begin(); extern "C" void vp_native_end();\n')
        f.write(''.join('extern "C" void %s();\n' % n for n in names))
        f.write('int main(int argc, char** argv) {\n  vp_native_begin();\n')
        for n in names:
            f.write('  if (!std::strcmp(argv[1], "%s")) { %s(); vp_native_end(); return 0; }\n' % (n, n))
        f.write('  return 9;\n}\n')
    units = srcs + [main, core.ROOT + '/replay/vp_native.cpp'] + core.native_lib_sources()

    def cc(src):
        o = os.path.join(out, os.path.basename(src) + '.o')
        r = core.sh(['g++', '-std=c++17', '-O1', '-w', '-c'] + inc + [src, '-o', o])
        return o, r
    objs = []
    for o, r in core.parallel(units, cc, 14):
        if r.returncode:
            raise core.Inconclusive('native build failed: ' + r.stdout[-1500:])
        objs.append(o)
    r = core.sh(['g++', '-o', exe] + objs + ['-lpthread'])
    if r.returncode:
        raise core.Inconclusive('native link failed: ' + r.stdout[-1500:])
    return exe


def run_native(exe, name, value, ctx):
    inp = os.path.join(ctx['outdir'], 'native', 'in_%s.txt' % name)
    open(inp, 'w').write(str(value))
    r = subprocess.run([exe, name], env=dict(os.environ, VP_INPUT=inp), stdout=subprocess.PIPE, stderr=subprocess.STDOUT, text=True, timeout=30)
    return r.returncode, r.stdout


def post(pid, mode, ev, queries, results, ctx):
    """Translation validation / oracle pre-validation: every generated program is also run natively (real library, g++)
    on concrete payloads; a native assertion failure where the solver said 'holds' means the encoding or the oracle is wrong."""
    exe = native_build(pid, mode, ctx)
    vals = [0, 1, 0x7fffffff, 0xffffffff, (ctx['seed'] * 2654435761) & 0xffffffff]
    jobs = [(n, v) for (n, _) in ctx['programs'] for v in vals[:2 if ctx['tier'] == 'quick' else 5]]
    bad = []

    def one(j):
        rc, out = run_native(exe, j[0], j[1], ctx)
        return j, rc, out
    status = {('q_' + q['name'][2:]): r.status for q, r in zip(queries, results)}
    for (n, v), rc, out in core.parallel(jobs, one, 14):
        ok_native = rc == 0 and 'VP-END' in out
        if not ok_native and status.get('q_' + n) == 'ok':
            bad.append('%s v=%d rc=%d %s' % (n, v, rc, out.strip()[-200:]))
    ev['coverage']['traces_validated_against_impl'] = len(jobs)
    ev['coverage']['native_disagreements'] = bad[:10]
    if bad:
        raise core.Inconclusive('ENCODER/ORACLE-MISMATCH: native run of the real library disagrees with a solver pass: ' + '; '.join(bad[:3]))


def replay(pid, mode, q, viol, inputs, ctx):
    if 'program' not in q:
        return None, 'no native replay defined for this query'
    exe = native_build(pid, mode, ctx)
    name = q['name'][2:]
    v = inputs[0] if inputs else 0
    rc, out = run_native(exe, name, v, ctx)
    if 'VP-FAIL' in out or rc not in (0,):
        return True, 'native g++ build of the real library, program %s, payload %d:\n%s' % (name, v, out.strip()[-600:])
    return False, 'native run passed for payload %d (memory-model assertions such as use-after-free need ASan to show natively): %s' % (v, out.strip()[-300:])
