"""C09 -- WhenAll / Join complete once, at the right moment, with inputs in input order (Tier A)."""
from checks import when_common


def plan(tier, seed, ctx):
    configs = [('all_first_s', 'c10_epilogue_all', 1, 'WhenAll<FirstFail> static'), ('all_none_s', 'c10_epilogue_all', 0, 'WhenAll<None> static'),
               ('all_first_d', 'c10_epilogue_all', 1, 'WhenAll<FirstFail> dynamic'), ('join_first_s', 'c10_epilogue_join', 1, 'Join<FirstFail> static'),
               ('join_none_s', 'c10_epilogue_join', 0, 'Join<None> static')]
    if tier != 'quick':
        configs += [('all_none_d', 'c10_epilogue_all', 0, 'WhenAll<None> dynamic'), ('join_first_d', 'c10_epilogue_join', 1, 'Join<FirstFail> dynamic')]
    meta = {'rule': 'Per combinator x policy x form x outcome kinds x racing pair of units x preemption index one query.',
            'explanation': 'Real code: when.hpp, all.hpp (All<None|FirstFail>), join.hpp, when_all.hpp, join.hpp (API), std::vector as instantiated, plus C01\'s core code.'}
    return when_common.make_plan('C09', tier, seed, ctx, configs, meta)


MANIFEST = {
    'level_text': 'For WhenAll<None|FirstFail> and Join<None|FirstFail> (static; FirstFail also dynamic) over 2 inputs the solver shows for every payload and every well-nested '
                  'two-unit schedule: output set exactly once; without failure (or under None) only after both inputs completed, entry i = input i for every completion order; '
                  'under FirstFail the error/exception of a failed input (the first one in sequential order); inputs and combinator released exactly once; empty range -> invalid future.',
    'level_note': 'n=2, unique futures, AllTuple not covered, well-nested schedules. Trusted: clang -O1 IR, ir2c, rt, cbmc. Schedule points: atomic operations and the plain accesses inside the combinators (Consume/Here); shared inputs with a move-marking value type sequentially.',
    'technique': 'bounded model checking of the real code with solver-decided preemption cubes',
    'design_ref': 'DESIGN.md 4 C09',
}
