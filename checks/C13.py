"""C13 -- coroutines resume once, after the awaited event, with its outcome, where asked.  Real C++20 coroutines (clang CoroSplit
output) through the encoder; sequential scenarios + Tier A cubes for the suspend-vs-complete race."""
import core

LIB = [('src/algo/base_core.cpp',), ('src/exe/inline.cpp',), ('src/algo/drop_core.cpp',), ('src/lazy/task_impl.cpp',), ('src/algo/shared_core.cpp',)]
STARTS = [('await_one', 0), ('await_two', 1), ('on_then_await', 2), ('on_stopped', 3), ('await_on', 4), ('lazy', 5)]


def entry(name, pargs, pre, outer, inner_idx, k, epi, kmax):
    s = 'void %s(void) {\n  vp_spurious_cfg = 0; vp_spurious_at = -1;\n  vp_init();\n  c13_prologue(%s);\n' % (name, pargs)
    for f in pre:
        s += '  %s();\n' % f
    s += '  vp_unit_sel = %d; vp_pre_k = %d; vp_pre_enabled = 1;\n  %s();\n' % (inner_idx, k, outer)
    if k < 0:
        s += '  VP_ASSERT(vp_pre_count <= %d, "VP-BOUND: unit performs more atomic operations than there are preemption cubes");\n' % kmax
    s += '  vp_run_pending_unit();\n  vp_pre_enabled = 0;\n  %s;\n}\n' % epi
    return s


def plan(tier, seed, ctx):
    kmax = 12 if tier == 'quick' else 16
    queries, modules, mopts = [], {}, {}
    cfgs = ['coro20'] if tier == 'quick' else ['coro20', 'coro20nst']
    for cfg in cfgs:
        mn = 'c13_' + cfg
        modules[mn] = [('harness/C13_api.cpp', cfg)] + [(l[0], cfg) for l in LIB]
        mopts[mn] = {'nthreads': 2, 'heap': 2048, 'stack': 4096, 'preempt': True}
        units = ['c13_set0', 'c13_set1', 'c13_set_shared'] + ['c13_start_' + s for s, _ in STARTS] + ['c13_start_shared0', 'c13_start_shared1']
        head = core.decls(units + ['c13_misc', 'c13_epilogue_shared']) + 'void c13_prologue(uint32_t, uint32_t, uint32_t, uint32_t);\nvoid c13_epilogue(uint32_t);\nvoid c13_on_stopped(uint32_t);\nvoid c13_on_inherit(uint32_t);\n' + core.unit_selector(units)
        first = [True]

        def add(name, text, what, fam=None):
            queries.append({'name': name, 'module': mn, 'main': (head if first[0] else '') + text, 'unwind': 10, 'timeout': 300, 'sample': what, 'witness': 'any', 'family': fam})
            first[0] = False
        add('%s_misc' % mn, 'void %s_misc(void) { vp_init(); c13_misc(); }\n' % mn, 'escaping exception, On + Yield + CurrentExecutor (sequential) [%s]' % cfg)
        for dfr in (0, 1):
            add('%s_on_stopped_%d' % (mn, dfr), 'void %s_on_stopped_%d(void) { vp_init(); c13_on_stopped(%d); }\n' % (mn, dfr, dfr),
                'On(e) after e was stopped underneath the coroutine [%s, %s]' % (cfg, 'deferred' if dfr else 'inline'))
            add('%s_on_inherit_%d' % (mn, dfr), 'void %s_on_inherit_%d(void) { vp_init(); c13_on_inherit(%d); }\n' % (mn, dfr, dfr),
                'On(b) after inheriting b from an awaited FutureOn fulfilled by a foreign thread [%s, %s]' % (cfg, 'deferred' if dfr else 'inline'))
        for (st, which) in STARTS:
            su = 'c13_start_' + st
            kinds = (0, 1, 2) if which in (0, 2, 5) else (0,)
            for k0 in kinds:
                for dfr in ((0, 1) if which in (2, 4) else (0,)):
                    pargs = '%d, 0, %d, 0' % (k0, dfr)
                    base = '%s_%s_%s%s' % (mn, st, 'vex'[k0], '_d' if dfr else '')
                    # already ready / set before start (sequential)
                    nm = base + '_ready'
                    add(nm, entry(nm, pargs, ['c13_set0'] + (['c13_set1'] if which == 1 else []), su, 0, -1, 'c13_epilogue(%d)' % which, kmax + 20),
                        '%s: awaited future(s) already ready [%s, input %s]' % (st, cfg, 'vex'[k0]))
                    # suspend vs complete: start outer, set0 inner at every atomic op; and set0 outer, start inner
                    for k in range(-1, kmax):
                        nm = '%s_S_k%s' % (base, 'none' if k < 0 else k)
                        add(nm, entry(nm, pargs, [], su, 1, k, 'c13_epilogue(%d)' % which, kmax),
                            '%s: coroutine start (outer) vs Set of the awaited promise at atomic operation #%s [%s]' % (st, 'after the end' if k < 0 else k, cfg), base + '_S')
                    for k in range(0, kmax):
                        nm = '%s_P_k%d' % (base, k)
                        add(nm, entry(nm, pargs, [], 'c13_set0', units.index(su) + 1, k, 'c13_epilogue(%d)' % which, kmax),
                            '%s: Set (outer) vs coroutine start at atomic operation #%d [%s]' % (st, k, cfg), base + '_P')
        # two coroutines awaiting one SharedFuture, fulfilment racing with the second one's suspension
        for k in range(-1, kmax):
            nm = '%s_shared_k%s' % (mn, 'none' if k < 0 else k)
            add(nm, entry(nm, '0, 0, 0, 1', ['c13_start_shared0'], 'c13_start_shared1', 3, k, 'c13_epilogue_shared()', kmax),
                'two coroutines co_await the same SharedFuture; SharedPromise::Set at atomic operation #%s of the second one\'s start [%s]' % ('after the end' if k < 0 else k, cfg), mn + '_shared')
    meta = {
        'rule': 'Per awaiter form x awaited outcome kind x executor mode: one sequential "already ready" query and both nestings of {start the coroutine until it suspends, complete what it awaits} '
                'at every atomic operation; plus two coroutines on one SharedFuture.',
        'bounds': {'coroutines': '1 (2 for SharedFuture)', 'awaited_objects': '1-2', 'logical_threads': 2, 'tier_A_kmax': kmax, 'configurations': cfgs},
        'stubs': ['stub executors A, B (inline or deferred) and stopped S', 'operator new never fails (coroutine frames are ordinary heap blocks of the model)'],
        'assumptions': ['clang 14\'s CoroSplit output is taken as the meaning of the coroutine (compiler correctness outside)', 'AwaitSticky, iterator forms of Await/AwaitOn, MSVC/Apple branches not covered',
                        'thorough tier also checks the configuration without symmetric transfer'],
        'functions_filter': r'(PromiseType|Awaiter|Await|Coro|c13_|Destroy)',
        'explanation': 'Real code: coro/detail/promise_type.hpp, await_awaiter.hpp, await_on_awaiter.hpp, on_awaiter.hpp, coro/{await,await_on,on,yield,current_executor,future,task,shared_future}.hpp, '
                       'the clang-generated ramp/resume/destroy functions of the harness coroutines, plus C01\'s core code.',
    }
    return {'modules': modules, 'queries': queries, 'meta': meta, 'module_opts': mopts}


MANIFEST = {
    'level_text': 'For real coroutines (clang-lowered frames, symmetric transfer) the solver shows for every payload and every well-nested two-unit schedule of coroutine start vs completion of the awaited '
                  'promise: each co_await (Future&&, Await(f0,f1), AwaitOn(e,f), On(e), SharedFuture by two coroutines, lazy Task coroutine) resumes exactly once and only after the awaited event, '
                  'receives the value or has the failure become its own Result, runs on the named executor, completes with StopError on a stopped executor, and that frames and live locals are destroyed exactly once.',
    'level_note': '1-2 coroutines, 2 logical threads, well-nested schedules; compiler correctness of CoroSplit outside. Trusted: clang -O1 IR, ir2c, rt, cbmc.',
    'technique': 'bounded model checking of real coroutine code (LLVM IR after CoroSplit) with solver-decided preemption cubes',
    'design_ref': 'DESIGN.md 4 C13',
}
