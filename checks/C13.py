"""C13 -- not claimed."""
NOT_APPLICABLE = 'the coroutine configuration compiles to IR, but no harness with real coroutine frames (ramp/resume/destroy, symmetric transfer) was built in the time available; only MutexImpl is covered (C14)'
