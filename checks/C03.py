"""C03 -- everything owned is released exactly once, on every path (memory ghost over pipelines incl. throw / stop / abandon)."""
from checks import pipe_common


def plan(tier, seed, ctx):
    meta = {
        'rule': 'One query per generated pipeline with at least one failure path (throwing callback, stopped executor, error/exception source, abandoned Task, '
                'unwrapped inner future/task): the flat-memory ghost asserts that every access hits a live block (no touch after release), every delete hits a live '
                'block base (exactly once), no heap block is alive at quiescence and every captured functor object was destroyed exactly once.',
        'explanation': 'Real code as C02 plus helper.hpp/unique_counter.hpp/atomic_counter.hpp (DecRef -> delete), result_core.hpp destructor, drop_core.cpp.',
        'assumptions': ['concurrent interleavings of release paths are covered for the Future/Promise pair by C01\'s Tier A queries (which carry the same ghost assertions); '
                        'combinators and coroutine frames are not covered by this check'],
    }
    def sel(p):
        return (p.form == 'lazy' and p.start == 'drop') or p.source in ('ready_error', 'ready_exc', 'contract_after_err', 'run_throw', 'schedule_throw', 'task_error') \
            or any(s.beh == 'throw' or s.attach == 'on_stopped' or s.ret in ('future_later', 'task_sched', 'task_make', 'future_ready', 'result_err') for s in p.steps)
    return pipe_common.make_plan('C03', tier, seed, ctx, ('eager', 'lazy'), meta, select=sel)


MANIFEST = {
    'level_text': 'For each enumerated pipeline with failure paths the solver shows for every payload that nothing is touched after release, nothing is released twice, '
                  'nothing allocated remains at quiescence and every continuation functor (with its captures) is destroyed exactly once; the same ghost assertions are '
                  'active in every other check\'s queries (C01 Tier A covers dropping either side under all well-nested schedules).',
    'level_note': 'Sequential pipelines only in this check; allocation failure outside. Trusted: clang -O1 IR, ir2c, rt/vp_rt.c liveness ghost (64-byte slots), cbmc.',
    'technique': 'bounded model checking with a liveness/ownership ghost in the memory model over generated client programs',
    'design_ref': 'DESIGN.md 4 C03',
}
