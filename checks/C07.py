"""C07 -- Strand: one job at a time, in submission order, none lost.  Tier A over the real strand.cpp (MakeStrand)."""
import core

KMAX = {'quick': 12, 'thorough': 16}


def plan(tier, seed, ctx):
    modules = {'c07a': [('harness/C07_api.cpp', 'prod17'), ('src/exe/strand.cpp', 'prod17'), ('src/exe/inline.cpp', 'prod17')]}
    units = ['c07a_submitter0', 'c07a_submitter1', 'c07a_runner']
    fns = units + ['c07a_epilogue']
    queries = []
    first = True
    kmax = KMAX[tier]
    # (name, prologue args, outer unit, inner unit, what)
    pairs = [('run_R_S0', '0, 1', 'c07a_runner', 1, 'batch runner preempted by a submitter (2 jobs)'),
             ('run_S0_R', '0, 1', 'c07a_submitter0', 3, 'submitter (2 jobs) preempted by the batch runner'),
             ('run_S0_S1', '0, 0', 'c07a_submitter0', 2, 'two submitters racing on an idle strand'),
             ('run_S1_S0', '0, 1', 'c07a_submitter1', 1, 'two submitters racing on a scheduled strand'),
             ('stop_S0_S1', '1, 0', 'c07a_submitter0', 2, 'two submitters racing, underlying executor stopped (Drop path)'),
             ('stop_S1_S0', '1, 0', 'c07a_submitter1', 1, 'two submitters racing, underlying executor stopped (Drop path)')]
    for (nm, pargs, outer, inner, what) in pairs:
        for k in range(-1, kmax):
            e = 'c07a_%s_k%s' % (nm, 'none' if k < 0 else k)
            main = (core.decls(fns) + 'void c07a_prologue(uint32_t, uint32_t);\n' + core.unit_selector(units)) if first else ''
            first = False
            main += core.cube_entry(e, 'c07a_prologue', outer, inner, k, 'c07a_epilogue', kmax, pargs, spurious_nondet=0)
            queries.append({'name': e, 'module': 'c07a', 'main': main, 'unwind': 8, 'timeout': 200,
                            'sample': 'Tier A: %s; the inner unit runs to completion at atomic operation #%s of the outer unit' % (what, 'after the end' if k < 0 else k)})
        for j in range(0, 4):  # fault dimension: the j-th weak CAS of the run fails spuriously (sequential order outer;inner, and a mid preemption)
            for k in (-1, 1, 2):
                e = 'c07a_%s_k%s_spur%d' % (nm, 'none' if k < 0 else k, j)
                main = core.cube_entry(e, 'c07a_prologue', outer, inner, k, 'c07a_epilogue', kmax + 4, pargs, spurious_at=j, spurious_nondet=0)
                queries.append({'name': e, 'module': 'c07a', 'main': main, 'unwind': 8, 'timeout': 200,
                                'sample': 'Tier A + fault: %s; preemption at #%s; weak CAS #%d of the run fails spuriously' % (what, 'end' if k < 0 else k, j)})
    meta = {
        'rule': 'Per pair of units (runner/submitter, submitter/submitter, with the underlying executor accepting or stopped) and per preemption index k one '
                'query; k=none also proves the covering bound. Oracle: no overlap, per-submitter program order, every job Called xor Dropped exactly once (Dropped '
                'only when the underlying executor refuses), strand idle and freed when the last reference goes.',
        'bounds': {'logical_threads': 2, 'jobs': '3-4', 'tier_A_kmax': kmax, 'spurious_weak_cas_failures': 'one per query, at an enumerated position 0..3 (sequential order and preemption indices 1, 2)',
                   'schedules': 'well-nested two-unit schedules; the all-interleavings (CBMC threads) encoding of strand.cpp ran out of 12 GB after 17 min and is not used'},
        'stubs': ['underlying executor = mailbox stub (harness decides when a scheduled batch runs); stopped mode Drops', 'leaf jobs recording overlap/order/counts'],
        'assumptions': ['schedules where three or more parties interleave, or two parties interleave more than one window deep, are outside the claim',
                        'happens-before between consecutive jobs is C04\'s subject'],
        'functions_filter': r'(Strand|c07a|StubExec)',
        'explanation': 'Real code: all of src/exe/strand.cpp (Submit, Call, Drop, Mark, MakeStrand, ctor/dtor) + Helper<AtomicCounter,Strand>.',
    }
    return {'modules': modules, 'queries': queries, 'meta': meta, 'module_opts': {'c07a': {'nthreads': 2, 'heap': 1024, 'stack': 2048, 'preempt': True, 'hb': True}}}


MANIFEST = {
    'level_text': 'For the real strand.cpp the solver shows, for every well-nested two-unit schedule (a submitter or the batch runner preempted at any atomic operation '
                  'by the complete other unit; covering bound proved) and spurious weak-CAS failure, that jobs never overlap, keep per-submitter program order, are '
                  'each Called exactly once or (underlying executor stopped) Dropped exactly once, that no job is lost in the window between the runner\'s last '
                  'check and its CAS back to idle, and that the strand is idle and freed at quiescence.',
    'level_note': 'Two logical threads, 3-4 jobs, well-nested schedules only (the full thread encoding did not fit in memory). Trusted: clang -O1 IR, ir2c, rt, cbmc. The C04 happens-before ghost runs inside the same cubes: consecutive jobs must be ordered through the strand\'s own atomics.',
    'technique': 'bounded model checking of the real code with solver-decided preemption cubes (sequentialised two-unit schedules)',
    'design_ref': 'DESIGN.md 2b, 4 C07',
}
