"""C05 -- executors: Call xor Drop, and steps run where they were told (sequential part: instrumented stub executors)."""
from checks import pipe_common


def plan(tier, seed, ctx):
    meta = {
        'rule': 'One query per generated pipeline that names executors: every callback that ran records the instrumented executor it ran inside; the number of '
                'Submit calls per executor, the executor of each step (named, inherited along the chain, Inline for ThenInline) and the Drop-only behaviour of a '
                'stopped executor must equal the reference interpreter; the rest of the chain still completes.',
        'explanation': 'Real code: core.hpp (Impl: Submit for Call-type cores, TransferExecutorTo), base_core.hpp, future.hpp (FutureOn), contract.hpp, inline.cpp, task_impl.cpp.',
        'assumptions': ['Call-xor-Drop for the real Strand/FairThreadPool/Manual executors under concurrency is C07/C08\'s subject; here the executors are contract-honouring stubs',
                        'coroutine On(e) placement is C13\'s subject'],
    }
    sel = lambda p: any(s.attach != 'inline' for s in p.steps) or p.source in ('run', 'run_throw', 'schedule', 'schedule_throw')
    return pipe_common.make_plan('C05', tier, seed, ctx, ('eager', 'lazy'), meta, select=sel)


MANIFEST = {
    'level_text': 'For each enumerated pipeline with per-step executor choice among instrumented executors A, B and a stopped S the solver shows for every payload: a step '
                  'attached with Then(e,f) runs inside e, one attached without executor runs on the executor inherited along the chain, ThenInline causes no Submit, '
                  'every job given to the stopped executor is Dropped (never Called), the step then sees StopError (value callbacks skipped) and the chain completes.',
    'level_note': 'Sequential; stub executors honour the IExecutor contract. Real Strand/pool Call-xor-Drop under races is not claimed here. Trusted: clang -O1 IR, ir2c, rt, cbmc.',
    'technique': 'bounded model checking of generated client programs with instrumented stub executors against a reference interpreter',
    'design_ref': 'DESIGN.md 4 C05',
}
