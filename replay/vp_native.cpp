// vp_native.cpp -- native definitions of the vp.h interface: the harness is compiled with the ordinary compiler
// against the REAL library sources and run on a concrete input vector (counterexample replay, translation validation).
#include <cstdint>
#include <cstdio>
#include <cstdlib>
#include <new>
#include <vector>
#include <atomic>
static std::vector<std::uint64_t> g_in;
static std::size_t g_pos;
static std::atomic<long> g_live{0}, g_nalloc{0};
static bool g_count = false;
static void load() {
  static bool done = false;
  if (done) return;
  done = true;
  if (const char* p = std::getenv("VP_INPUT")) {
    if (FILE* f = std::fopen(p, "r")) {
      unsigned long long v;
      while (std::fscanf(f, "%llu", &v) == 1) g_in.push_back(v);
      std::fclose(f);
    }
  }
  g_count = true;
}
static std::uint64_t next() { load(); return g_pos < g_in.size() ? g_in[g_pos++] : 0; }
extern "C" {
std::uint32_t vp_nondet_u32() noexcept { return (std::uint32_t)next(); }
std::uint64_t vp_nondet_u64() noexcept { return next(); }
std::uint8_t vp_nondet_u8() noexcept { return (std::uint8_t)next(); }
bool vp_nondet_bool() noexcept { return next() & 1; }
void vp_assume(bool c) noexcept { if (!c) { std::printf("VP-ASSUME-FALSE\n"); std::fflush(stdout); std::_Exit(4); } }
void vp_assert(bool c, const char* tag) noexcept { if (!c) { std::printf("VP-FAIL %s\n", tag); std::fflush(stdout); std::_Exit(3); } }
void vp_reach(const char* tag) noexcept { std::printf("VP-REACH %s\n", tag); }
void vp_observe(std::uint64_t tag, std::uint64_t v) noexcept { std::printf("VP-OBS %llu %llu\n", (unsigned long long)tag, (unsigned long long)v); }
std::uint64_t vp_alloc_count() noexcept { return (std::uint64_t)g_nalloc.load(); }
std::uint64_t vp_live_count() noexcept { return (std::uint64_t)g_live.load(); }
std::uint64_t vp_thread_id() noexcept { return 0; }
void vp_sync_point() noexcept {}
void vp_hb_write(std::uint32_t) noexcept {}
void vp_hb_read(std::uint32_t) noexcept {}
void vp_hb_sync_release(std::uint32_t) noexcept {}
void vp_hb_sync_acquire(std::uint32_t) noexcept {}
int vp_yield_to_pending() noexcept { return 0; }
void vp_native_begin() { load(); }
void vp_native_end() {
  if (g_live.load() != 0) { std::printf("VP-FAIL leak: heap blocks alive at quiescence (%ld)\n", g_live.load()); std::fflush(stdout); std::_Exit(3); }
  std::printf("VP-END\n");
}
}
void* operator new(std::size_t n) { void* p = std::malloc(n ? n : 1); if (!p) std::abort(); if (g_count) { g_live++; g_nalloc++; } return p; }
void operator delete(void* p) noexcept { if (p && g_count) g_live--; std::free(p); }
void operator delete(void* p, std::size_t) noexcept { if (p && g_count) g_live--; std::free(p); }
