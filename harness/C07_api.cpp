// C07_api.cpp -- the real Strand (MakeStrand: refcounted, src/exe/strand.cpp) over a stub underlying executor, as units of a
// sequentialised schedule (Tier A): submitter / second submitter / batch runner, one unit running to completion inside
// another at any of its atomic operations.  Jobs are leaf stubs recording overlap, order and Call/Drop counts.
#include <yaclib/exe/strand.hpp>
#include "vp.h"
#include "vp_stub_exec.h"
using namespace yaclib;

static unsigned g_inside, g_overlap, g_order_bad, g_last_of[2], g_ran;
struct KJob final : Job {
  void Call() noexcept final {
    if (++g_inside != 1) g_overlap = 1;
    vp_hb_write(0);    // C04 ghost: data protected by the strand, written by every job: consecutive jobs must be ordered by happens-before
    vp_sync_point();   // the job body is a schedule point: another unit may run while this job is inside
    ++calls; ++g_ran;
    if (seq <= g_last_of[owner]) g_order_bad = 1;
    g_last_of[owner] = seq;
    --g_inside;
  }
  void Drop() noexcept final { ++drops; }
  unsigned calls = 0, drops = 0, owner = 0, seq = 0;
  bool submitted = false;
};
static KJob g_job[4];
static vp::StubExec g_u;   // underlying executor: mailbox (deferred) so that the harness decides when a batch runs
static IExecutorPtr g_strand;
static unsigned g_njobs;

extern "C" void c07a_prologue(unsigned stopped, unsigned presubmitted) {
  g_u.deferred = true;
  g_u.stopped = stopped != 0;
  g_u.IncRef();
  g_strand = MakeStrand(IExecutorPtr{NoRefTag{}, &g_u});
  g_job[0].owner = 0; g_job[0].seq = 1; g_job[1].owner = 0; g_job[1].seq = 2;
  g_job[2].owner = 1; g_job[2].seq = 1; g_job[3].owner = 1; g_job[3].seq = 2;
  g_njobs = 3;
  if (presubmitted) { g_job[3].seq = 1; g_job[2].seq = 2; g_job[3].submitted = true; g_strand->Submit(g_job[3]); }  // strand already scheduled with one job
}
extern "C" void c07a_submitter0() { g_job[0].submitted = true; g_strand->Submit(g_job[0]); g_job[1].submitted = true; g_strand->Submit(g_job[1]); }
extern "C" void c07a_submitter1() { g_job[2].submitted = true; g_strand->Submit(g_job[2]); }
extern "C" void c07a_runner() { g_u.Drain(); }   // a worker of the underlying executor takes what is scheduled and runs it
extern "C" void c07a_epilogue() {
  for (int i = 0; i < 3; ++i) g_u.Drain();
  vp_assert(g_u.n == 0, "VP-BOUND: strand still scheduled after the drain bound");
  vp_assert(g_overlap == 0, "C07 two strand jobs ran concurrently");
  vp_assert(g_order_bad == 0, "C07 jobs of one submitting thread ran out of program order");
  for (unsigned i = 0; i < 4; ++i) {
    if (!g_job[i].submitted) { vp_assert(g_job[i].calls + g_job[i].drops == 0, "C07 a job that was never submitted ran"); continue; }
    vp_assert(g_job[i].calls + g_job[i].drops == 1, "C07 job neither Called nor Dropped exactly once (lost or duplicated)");
    if (!g_u.stopped) vp_assert(g_job[i].drops == 0, "C07 job Dropped although the underlying executor accepted work");
    else vp_assert(g_job[i].calls == 0, "C07 job Called although the underlying executor refused the strand");
  }
  unsigned long a0 = vp_alloc_count();
  g_strand = nullptr;  // last reference: the strand must be idle and is destroyed now
  vp_assert(vp_live_count() == 0, "C03 strand (or something it owns) still alive after the last reference was dropped at quiescence");
  vp_reach("c07a end");
}
// C20: submitting an existing job to a Strand allocates nothing
extern "C" void c07a_alloc_free_submit() {
  unsigned long a0 = vp_alloc_count();
  g_strand->Submit(g_job[0]);
  vp_assert(vp_alloc_count() == a0, "C20 Strand submission of an existing job allocated");
}
