// C11_api.cpp -- Wait / WaitFor / Get over the real wait_impl.hpp, wait_event.hpp, mutex_event.cpp, base_core.cpp; the pthread
// mutex / condition variable / clock boundary is modelled (rt/vp_sync.c).  Units: waiter W, producer P (sets f0 then f1).
#include <yaclib/async/contract.hpp>
#include <yaclib/async/future.hpp>
#include <yaclib/async/promise.hpp>
#include <yaclib/async/wait.hpp>
#include <yaclib/async/wait_for.hpp>
#include "vp.h"
#include <chrono>
#include <new>
using namespace yaclib;
using namespace std::chrono_literals;

alignas(16) static unsigned char g_fb[2][sizeof(Future<int>)], g_pb[2][sizeof(Promise<int>)];
#define FU(i) (*reinterpret_cast<Future<int>*>(g_fb[i]))
#define PR(i) (*reinterpret_cast<Promise<int>*>(g_pb[i]))
static int g_v[2];
static unsigned g_nprod;          // how many of the futures the producer unit fulfils (the rest is fulfilled in the prologue)
static unsigned g_set_started[2], g_set_done[2];
static unsigned g_waited, g_wait_result = 2, g_ready_after[2], g_called[2]; static bool g_ok[2] = {true, true};
static unsigned g_timed;          // waiter used a timed wait
static int g_got = 0; static unsigned g_got_n;

static void SetI(unsigned i) { g_set_started[i] = 1; std::move(PR(i)).Set(g_v[i]); g_set_done[i] = 1; }
extern "C" void c11_prologue(unsigned preset_mask) {
  for (int i = 0; i < 2; ++i) {
    auto [f, p] = MakeContract<int>();
    new (g_fb[i]) Future<int>{std::move(f)};
    new (g_pb[i]) Promise<int>{std::move(p)};
    g_v[i] = (int)vp_nondet_u32();
  }
  for (unsigned i = 0; i < 2; ++i) if (preset_mask & (1u << i)) SetI(i);
}
extern "C" void c11_produce0() { if (!g_set_started[0]) SetI(0); }
extern "C" void c11_produce01() { if (!g_set_started[0]) SetI(0); if (!g_set_started[1]) SetI(1); }
extern "C" void c11_produce1() { if (!g_set_started[1]) SetI(1); }
static void After(unsigned n) { g_waited = 1; for (unsigned i = 0; i < n; ++i) g_ready_after[i] = FU(i).Ready(); }
extern "C" void c11_wait1() { Wait(FU(0)); g_wait_result = 1; After(1); }
extern "C" void c11_wait2() { Wait(FU(0), FU(1)); g_wait_result = 1; After(2); }
extern "C" void c11_wait2it() { Wait(&FU(0), std::size_t{2}); g_wait_result = 1; After(2); }   // g_fb is an array of Future<int>
extern "C" void c11_waitfor1() { g_timed = 1; g_wait_result = WaitFor(1ns, FU(0)); After(1); }
extern "C" void c11_waitfor2() { g_timed = 1; g_wait_result = WaitFor(1ns, FU(0), FU(1)); After(2); }
extern "C" void c11_waitfor2it() { g_timed = 1; g_wait_result = WaitFor(1ns, &FU(0), std::size_t{2}); After(2); }
extern "C" void c11_get() { auto r = std::move(FU(0)).Get(); g_waited = 1; g_wait_result = 1; ++g_got_n; g_got = r.State() == ResultState::Value ? std::move(r).Value() : -1; }

struct Cb {
  unsigned i;
  void operator()(Result<int>&& r) noexcept { ++g_called[i]; g_ok[i] = g_ok[i] && r.State() == ResultState::Value && std::as_const(r).Value() == g_v[i]; }
};
// n: number of futures the waiter waited on; timeout_fired: the query made the first timed wait expire
extern "C" void c11_epilogue(unsigned n, unsigned timeout_fired, unsigned used_get) {
  vp_assert(g_waited == 1, "harness: the waiter never returned");
  if (!g_set_started[0]) SetI(0);
  if (!g_set_started[1]) SetI(1);
  if (g_wait_result == 1) {
    for (unsigned i = 0; i < n; ++i) vp_assert(used_get || g_ready_after[i], "C11 Wait/WaitFor reported success but a listed future is not Ready");
  } else {
    vp_assert(g_wait_result == 0 && g_timed && timeout_fired, "C11 WaitFor returned false although the deadline had not passed");
  }
  if (used_get) {
    vp_assert(g_got_n == 1 && g_got == g_v[0], "C11/C01 Get returned a Result different from what was Set");
  }
  // afterwards every future still delivers its result exactly once
  for (unsigned i = used_get ? 1 : 0; i < 2; ++i) std::move(FU(i)).DetachInline(Cb{i});
  for (unsigned i = used_get ? 1 : 0; i < 2; ++i) {
    vp_assert(g_called[i] == 1, "C11 after Wait/WaitFor (timed out or not) a future must still deliver its result exactly once");
    vp_assert(g_ok[i], "C11 a future delivered a Result different from what was Set after the wait");
  }
  vp_assert(vp_live_count() == 0, "C03 something is still alive at quiescence after Wait");
  if (g_wait_result == 0) vp_reach("c11 timed out"); else vp_reach("c11 waited");
}
// C20: Wait / WaitFor / Get on plain futures allocate nothing
extern "C" void c11_alloc_free() {
  c11_prologue(3);
  unsigned long a0 = vp_alloc_count();
  Wait(FU(0)); Wait(FU(0), FU(1)); (void)WaitFor(1ns, FU(0), FU(1)); Wait(&FU(0), std::size_t{2});
  auto r = std::move(FU(0)).Get();
  vp_assert(vp_alloc_count() == a0, "C20 Wait/WaitFor/Get on plain futures allocated");
  std::move(FU(1)).Detach();
  vp_reach("c11 alloc");
}
