// C13_api.cpp -- REAL C++20 coroutines (frames, ramp/resume/destroy as lowered by clang's CoroSplit, symmetric transfer) over the
// real promise_type.hpp / await_awaiter.hpp / await_on_awaiter.hpp / on_awaiter.hpp.  Sequential scenarios and two-unit
// schedules (Tier A): "start the coroutine (runs until it suspends)" vs "complete what it awaits".
#include <yaclib/async/contract.hpp>
#include <yaclib/async/make.hpp>
#include <yaclib/async/shared_contract.hpp>
#include <yaclib/coro/await.hpp>
#include <yaclib/coro/await_on.hpp>
#include <yaclib/coro/current_executor.hpp>
#include <yaclib/coro/future.hpp>
#include <yaclib/coro/on.hpp>
#include <yaclib/coro/shared_future.hpp>
#include <yaclib/coro/task.hpp>
#include <yaclib/coro/yield.hpp>
#include "vp.h"
#include "vp_stub_exec.h"
#include <new>
using namespace yaclib;

static vp::StubExec g_a, g_b, g_s;
static int g_alive;                     // live Tracker locals inside coroutine frames
struct Tracker { Tracker() noexcept { ++g_alive; } Tracker(const Tracker&) noexcept { ++g_alive; } ~Tracker() { --g_alive; } };
static unsigned g_after[3], g_where[3], g_set_started[2], g_early;
static int g_seen[3];
static unsigned g_final_n[2], g_final_state[2]; static int g_final[2]; static int g_final_exc[2] = {-1, -1};
static int g_v[2]; static unsigned g_kind[2];
alignas(16) static unsigned char g_fb[2][sizeof(Future<int>)], g_pb[2][sizeof(Promise<int>)];
#define FU(i) (*reinterpret_cast<Future<int>*>(g_fb[i]))
#define PR(i) (*reinterpret_cast<Promise<int>*>(g_pb[i]))
alignas(16) static unsigned char g_sfb[sizeof(SharedFuture<int>)], g_spb[sizeof(SharedPromise<int>)];
#define SF (*reinterpret_cast<SharedFuture<int>*>(g_sfb))
#define SP (*reinterpret_cast<SharedPromise<int>*>(g_spb))

static void After(unsigned slot, int x, unsigned need_set) {
  ++g_after[slot]; g_seen[slot] = x; g_where[slot] = vp::vp_cur_exec_id;
  if (need_set != 9 && !g_set_started[need_set]) g_early = 1;   // resumed although what it awaited has not even started to happen
}
static int ExcPayload(const std::exception_ptr& e) { try { std::rethrow_exception(e); } catch (int v) { return v; } catch (...) { return -2; } }
struct Final {
  unsigned i;
  void operator()(Result<int>&& r) noexcept {
    ++g_final_n[i]; g_final_state[i] = (unsigned)r.State();
    if (r.State() == ResultState::Value) g_final[i] = std::as_const(r).Value();
    if (r.State() == ResultState::Exception) g_final_exc[i] = ExcPayload(std::as_const(r).Exception());
  }
};
static void SetI(unsigned i) {
  g_set_started[i] = 1;
  if (g_kind[i] == 0) std::move(PR(i)).Set(g_v[i]);
  else if (g_kind[i] == 1) std::move(PR(i)).Set(StopTag{});
  else { std::exception_ptr e; try { throw g_v[i]; } catch (...) { e = std::current_exception(); } std::move(PR(i)).Set(std::move(e)); }
}

// ---- the coroutines under test
static Future<int> AwaitOne(Future<int> f) {            // co_await Future&&: value or rethrown failure
  Tracker t;
  int x = co_await std::move(f);
  After(0, x, 0);
  co_return x + 1;
}
static Future<int> AwaitTwo() {                          // co_await Await(f0, f1): leaves the futures valid and ready
  Tracker t;
  co_await Await(FU(0), FU(1));
  After(0, 0, 9);
  if (!g_set_started[0] || !g_set_started[1]) g_early = 1;
  bool ok = FU(0).Valid() && FU(1).Valid() && FU(0).Ready() && FU(1).Ready();
  co_return ok ? 7 : -7;
}
static Future<int> OnThenAwait(IExecutor& e, Future<int> f) {   // On(e) then await: resumption placement
  Tracker t;
  co_await On(e);
  After(1, 0, 9);
  int x = co_await std::move(f);
  After(0, x, 0);
  co_return x + 2;
}
static Future<int> AwaitOnExec(IExecutor& e) {           // AwaitOn(e, f): resumes on e
  Tracker t;
  co_await AwaitOn(e, FU(0));
  After(0, 0, 0);
  co_return std::as_const(FU(0)).Touch().Value() + 3;
}
static Future<int> AwaitShared(unsigned slot) {          // several coroutines awaiting the same SharedFuture
  Tracker t;
  int x = co_await SF;
  After(slot, x, 0);
  co_return x + 10 + (int)slot;
}
static Task<int> LazyCoro(Future<int> f) {               // coroutine Task: nothing runs before it is started
  Tracker t;
  After(2, 0, 9);
  int x = co_await std::move(f);
  After(0, x, 0);
  co_return x + 4;
}
static Future<int> OnAgainStopped(IExecutor& e) {        // the executor is stopped while the coroutine runs on it: the next On(e) must end it with StopError
  Tracker t;
  co_await On(e);
  After(1, 0, 9);
  g_a.stopped = true;
  co_await On(e);
  After(0, 0, 9);
  co_return 1;
}
static Future<int> InheritThenOn(FutureOn<int> f) {       // resumed inline by a foreign thread after awaiting a future bound to b: On(b) must still move it onto b
  Tracker t;
  int x = co_await std::move(f);
  After(1, x, 9);
  co_await On(g_b);
  After(0, x, 9);
  co_return x;
}
static Future<int> Thrower() { Tracker t; After(0, 0, 9); throw 77; co_return 0; }
static Future<int> YieldTwice(IExecutor& e) { Tracker t; co_await On(e); co_await kYield; After(0, 0, 9); auto& cur = co_await CurrentExecutor(); co_return &cur == &e ? 5 : -5; }

// ---- harness plumbing
extern "C" void c13_prologue(unsigned k0, unsigned k1, unsigned deferred, unsigned shared) {
  g_a.id = 1; g_b.id = 2; g_s.id = 3; g_s.stopped = true; g_a.deferred = g_b.deferred = deferred != 0;
  for (int i = 0; i < 2; ++i) {
    auto [f, p] = MakeContract<int>();
    new (g_fb[i]) Future<int>{std::move(f)}; new (g_pb[i]) Promise<int>{std::move(p)};
    g_v[i] = (int)vp_nondet_u32();
  }
  g_kind[0] = k0; g_kind[1] = k1;
  if (shared) { auto [sf, sp] = MakeSharedContract<int>(); new (g_sfb) SharedFuture<int>{std::move(sf)}; new (g_spb) SharedPromise<int>{std::move(sp)}; }
}
extern "C" void c13_set0() { SetI(0); }
extern "C" void c13_set1() { SetI(1); }
extern "C" void c13_set_shared() { g_set_started[0] = 1; std::move(SP).Set(g_v[0]); }
extern "C" void c13_start_await_one() { AwaitOne(std::move(FU(0))).DetachInline(Final{0}); }
extern "C" void c13_start_await_two() { AwaitTwo().DetachInline(Final{0}); }
extern "C" void c13_start_on_then_await() { OnThenAwait(g_a, std::move(FU(0))).DetachInline(Final{0}); }
extern "C" void c13_start_on_stopped() { OnThenAwait(g_s, std::move(FU(0))).DetachInline(Final{0}); }
extern "C" void c13_start_await_on() { AwaitOnExec(g_b).DetachInline(Final{0}); }
extern "C" void c13_start_shared0() { AwaitShared(0).DetachInline(Final{0}); }
extern "C" void c13_start_shared1() { AwaitShared(1).DetachInline(Final{1}); }
extern "C" void c13_start_lazy() {
  auto t = LazyCoro(std::move(FU(0)));
  vp_assert(g_after[2] == 0 && g_after[0] == 0, "C13/C12 a coroutine Task ran before it was started");
  std::move(t).ToFuture().DetachInline(Final{0});
}
static void Drain() { for (int i = 0; i < 4; ++i) { g_a.Drain(); g_b.Drain(); } vp_assert(g_a.n == 0 && g_b.n == 0, "VP-BOUND: work left after the drain bound"); }
static void ExpectOutcome(unsigned i, unsigned kind, int add) {
  vp_assert(g_final_n[i] == 1, "C13 the coroutine's own Result was delivered exactly once");
  if (kind == 0) vp_assert(g_final_state[i] == (unsigned)ResultState::Value && g_final[i] == g_v[0] + add, "C13 co_return value / awaited value wrong");
  else if (kind == 1) vp_assert(g_final_state[i] == (unsigned)ResultState::Exception, "C13 an awaited error is rethrown (ResultError) and must become the coroutine's own Exception Result");
  else vp_assert(g_final_state[i] == (unsigned)ResultState::Exception && g_final_exc[i] == g_v[0], "C13 awaited exception must be rethrown into / become the coroutine's Result");
}
static void Quiescent() {
  vp_assert(g_early == 0, "C13 a coroutine resumed before what it awaited had happened");
  vp_assert(g_alive == 0, "C13/C03 live locals of a coroutine frame were not destroyed exactly once");
  vp_assert(vp_live_count() == 0, "C13/C03 a coroutine frame (or a core) is still alive at quiescence");
}
// which: 0 await_one, 1 await_two, 2 on_then_await, 3 on_stopped, 4 await_on, 5 lazy
extern "C" void c13_epilogue(unsigned which) {
  if (!g_set_started[0]) SetI(0);
  if (which == 1 && !g_set_started[1]) SetI(1);
  if (which != 1) { std::move(FU(1)).Detach(); PR(1).~Promise(); }   // the second contract is not part of this scenario
  Drain();
  unsigned k = g_kind[0];
  if (which == 0) { vp_assert(g_after[0] == (k == 0), "C13 the coroutine must resume from co_await exactly once (not at all when the failure is rethrown)"); if (k == 0) vp_assert(g_seen[0] == g_v[0], "C13 awaited value wrong"); ExpectOutcome(0, k, 1); }
  if (which == 1) { vp_assert(g_after[0] == 1, "C13 resumed from Await(f0,f1) exactly once"); vp_assert(g_final_n[0] == 1 && g_final[0] == 7, "C13 Await(fs...) must leave the futures valid and ready"); std::move(FU(0)).Detach(); std::move(FU(1)).Detach(); }
  if (which == 2) { vp_assert(g_after[1] == 1 && g_where[1] == 1, "C13 after co_await On(e) the coroutine must run inside e"); vp_assert(g_after[0] == (k == 0), "C13 resumed exactly once"); ExpectOutcome(0, k, 2); }
  if (which == 3) { vp_assert(g_after[1] == 0 && g_after[0] == 0, "C13 a coroutine sent to a stopped executor must not continue"); vp_assert(g_final_n[0] == 1 && g_final_state[0] == (unsigned)ResultState::Error, "C13 stopped executor: the coroutine must complete with StopError"); }
  if (which == 4) { vp_assert(g_after[0] == 1 && g_where[0] == 2, "C13 AwaitOn(e, f) must resume inside e, exactly once"); if (k == 0) ExpectOutcome(0, 0, 3); std::move(FU(0)).Detach(); }
  if (which == 5) { vp_assert(g_after[2] == 1, "C13 lazy coroutine body ran exactly once after start"); vp_assert(g_after[0] == (k == 0), "C13 resumed exactly once"); ExpectOutcome(0, k, 4); }
  Quiescent();
  vp_reach("c13 end");
}
extern "C" void c13_epilogue_shared() {
  if (!g_set_started[0]) c13_set_shared();
  for (int i = 0; i < 2; ++i) { std::move(FU(i)).Detach(); PR(i).~Promise(); }
  Drain();
  for (unsigned i = 0; i < 2; ++i) {
    vp_assert(g_after[i] == 1 && g_seen[i] == g_v[0], "C13/C06 each coroutine awaiting the SharedFuture resumes exactly once with its value");
    vp_assert(g_final_n[i] == 1 && g_final[i] == g_v[0] + 10 + (int)i, "C13 shared awaiter result");
  }
  SF.~SharedFuture();
  Quiescent();
  vp_reach("c13 shared end");
}
extern "C" void c13_on_stopped(unsigned deferred) {   // sequential: On(e) after e was stopped underneath the coroutine
  g_a.id = 1; g_b.id = 2; g_a.deferred = g_b.deferred = deferred != 0;
  OnAgainStopped(g_a).DetachInline(Final{0});
  g_a.Drain(); g_a.Drain();
  vp_assert(g_after[1] == 1 && g_after[0] == 0, "C13 On(e) on an executor that was stopped meanwhile must not let the coroutine continue");
  vp_assert(g_final_n[0] == 1 && g_final_state[0] == (unsigned)ResultState::Error, "C13 On(e) on a stopped executor must complete the coroutine with StopError");
  Quiescent();
  vp_reach("c13 on stopped");
}
extern "C" void c13_on_inherit(unsigned deferred) {   // sequential: On(b) after inheriting b from an awaited FutureOn fulfilled by a foreign thread
  g_a.id = 1; g_b.id = 2; g_a.deferred = g_b.deferred = deferred != 0;
  auto [f, p] = MakeContractOn<int>(g_b);
  InheritThenOn(std::move(f)).DetachInline(Final{1});
  std::move(p).Set(7);                   // fulfilled by a thread that is not b
  g_b.Drain(); g_b.Drain();
  vp_assert(g_after[1] == 1 && g_after[0] == 1 && g_where[0] == 2, "C13 after co_await On(b) the coroutine must run inside b (also when it already inherited b as its executor)");
  vp_assert(g_final_n[1] == 1 && g_final[1] == 7, "C13 On inherit: result");
  Quiescent();
  vp_reach("c13 on inherit");
}
extern "C" void c13_misc() {   // sequential: escaping exception, Yield, CurrentExecutor
  g_a.id = 1;
  Thrower().DetachInline(Final{0});
  vp_assert(g_final_n[0] == 1 && g_final_state[0] == (unsigned)ResultState::Exception && g_final_exc[0] == 77, "C13 an escaping exception must become the coroutine's Result");
  g_after[0] = 0;
  YieldTwice(g_a).DetachInline(Final{1});
  vp_assert(g_after[0] == 1 && g_where[0] == 1 && g_final_n[1] == 1 && g_final[1] == 5 && g_a.submits == 2, "C13 On + Yield + CurrentExecutor");
  Quiescent();
  vp_reach("c13 misc");
}
