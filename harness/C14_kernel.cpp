// C14_kernel.cpp -- Tier K: the lock-free protocol of yaclib::Mutex (detail::MutexImpl<FIFO,Batching>: AwaitLock, TryLockAwait,
// TryUnlockAwait, UnlockHereAwait, GetHead) under EVERY interleaving of lockers and a TryLock prober.
// A parked coroutine is a stub BaseCore; being woken = being Submitted to its executor; the woken continuation (critical section +
// UnlockHere) then runs on the waking thread, exactly as on an inline / single-worker executor ("waiting never occupies a thread").
#include <yaclib/coro/mutex.hpp>
#include "vp.h"
#include <new>
using namespace yaclib;
using namespace yaclib::detail;
#ifndef KFIFO
#define KFIFO false
#endif
using M = MutexImpl<KFIFO, true>;
#ifdef NO_LADDER   // sequentialised (Tier A) build: no pointer-concretisation ladder needed
#define vp_obj_m g_m
#define vp_obj_e g_e
#define vp_obj_c0 g_c0
#define vp_obj_c1 g_c1
#define vp_obj_c2 g_c2
#endif

static unsigned g_inside, g_overlap, g_finished, g_grant_next, g_arrival_bad, g_try_bad, g_try_ok;
static unsigned g_pending[4];      // per thread: index+1 of a woken locker whose continuation this thread must run
struct KCore final : BaseCore {
  KCore() noexcept : BaseCore{kEmpty} {}
  InlineCore* Here(InlineCore&) noexcept final { return nullptr; }
#if YACLIB_SYMMETRIC_TRANSFER != 0
  yaclib_std::coroutine_handle<> Next(InlineCore&) noexcept final { return yaclib_std::noop_coroutine(); }
#endif
  unsigned id = 0, resumed = 0;
};
struct KExec final : IExecutor {
  Type Tag() const noexcept final { return Type::Custom; }
  bool Alive() const noexcept final { return true; }
  void Submit(Job& job) noexcept final {   // wake-up of a parked locker: remember it for the waking thread
    auto& c = static_cast<KCore&>(static_cast<BaseCore&>(job));
    ++c.resumed;
    g_pending[vp_thread_id()] = c.id + 1;
  }
};
alignas(16) static unsigned char vp_obj_m[sizeof(M)], vp_obj_e[sizeof(KExec)], vp_obj_c0[sizeof(KCore)], vp_obj_c1[sizeof(KCore)], vp_obj_c2[sizeof(KCore)];
#define MU (*reinterpret_cast<M*>(vp_obj_m))
#define EX (*reinterpret_cast<KExec*>(vp_obj_e))
static KCore& C(unsigned i) { return *reinterpret_cast<KCore*>(i == 0 ? vp_obj_c0 : i == 1 ? vp_obj_c1 : vp_obj_c2); }

extern "C" void c14k_prologue() {
  new (vp_obj_m) M{};
  new (vp_obj_e) KExec{};
  new (vp_obj_c0) KCore{}; new (vp_obj_c1) KCore{}; new (vp_obj_c2) KCore{};
  for (unsigned i = 0; i < 3; ++i) { C(i).id = i; C(i)._executor = IExecutorPtr{NoRefTag{}, &EX}; }
}
static void CriticalSectionAndUnlock(unsigned i) {
  if (++g_inside != 1) g_overlap = 1;
  vp_sync_point();   // the critical section is a schedule point: another unit may run while this holder is inside
  --g_inside;
  ++g_finished;
  MU.UnlockHere();
}
static void RunWoken() {                   // continuations of lockers this thread has woken (each may wake another one)
  for (int n = 0; n < 3; ++n) {
    unsigned p = g_pending[vp_thread_id()];
    if (p == 0) return;
    g_pending[vp_thread_id()] = 0;
    CriticalSectionAndUnlock(p - 1);
  }
}
static void Locker(unsigned i) {
  // LockAwaiter: await_ready = TryLockAwait(); await_suspend = AwaitLock(promise) (true: parked)
  if (!MU.TryLockAwait()) {
    if (MU.AwaitLock(C(i))) return;        // parked: the coroutine is suspended, this thread is free again
  }
  CriticalSectionAndUnlock(i);
  RunWoken();
}
extern "C" void c14k_locker0() { Locker(0); }
extern "C" void c14k_locker1() { Locker(1); }
extern "C" void c14k_locker2() { Locker(2); }
extern "C" void c14k_prober() {
  if (MU.TryLock()) {
    ++g_try_ok;
    if (++g_inside != 1) g_overlap = 1;    // TryLock succeeded: nobody else may be inside
    vp_sync_point();
    --g_inside;
    MU.UnlockHere();
    RunWoken();
  }
}
extern "C" void c14k_epilogue(unsigned lockers) {
  vp_assert(g_overlap == 0, "C14 two holders inside the critical section (or TryLock succeeded while the mutex was held)");
  vp_assert(g_finished == lockers, "C14 a Lock request was never granted (lost wake-up: a coroutine stays parked although every holder released)");
  for (unsigned i = 0; i < 3; ++i) vp_assert(C(i).resumed <= 1, "C14 a parked coroutine was resumed more than once");
  vp_assert(MU.TryLock(), "C14 mutex not free at quiescence");
  if (C(0).resumed + C(1).resumed + C(2).resumed > 0) vp_reach("c14k somebody parked and was woken");
  else vp_reach("c14k no contention");
}
