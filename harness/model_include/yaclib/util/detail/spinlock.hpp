// MODEL of yaclib/util/detail/spinlock.hpp for sequentialised (Tier A) schedules: a spin on a lock held by the preempted unit
// can never end underneath it, so acquiring a held spinlock makes that nested schedule infeasible (rt/vp_sync.c: vp_spin_lock).
#pragma once
#include <yaclib_std/atomic>
extern "C" void vp_spin_lock(void* word, unsigned size) noexcept;
extern "C" void vp_spin_unlock(void* word, unsigned size) noexcept;
namespace yaclib::detail {
template <typename T>
class Spinlock {
 public:
  void lock() noexcept { vp_spin_lock(&_state, sizeof(T)); }
  void unlock() noexcept { vp_spin_unlock(&_state, sizeof(T)); }
 private:
  T _state = 0;
};
}  // namespace yaclib::detail
