// C19_cmp.cpp -- differential oracle: for arbitrary (stored value, operands) every operation of the THREAD wrapper and of
// the FIBER re-implementation must return / store / write back exactly what std::atomic does (reference build p0).
// compare_exchange_weak is checked against the std contract instead (it may fail spuriously, in all three builds).
#include "vp.h"
#include "C19_ops.h"
#include <cstdint>
#include <type_traits>
using tbool = bool; using ti8 = std::int8_t; using tu8 = std::uint8_t; using ti16 = std::int16_t; using tu16 = std::uint16_t;
using ti32 = std::int32_t; using tu32 = std::uint32_t; using ti64 = std::int64_t; using tu64 = std::uint64_t;
using tptr = int*; using tf32 = float; using tf64 = double; struct tflag { char c; };

namespace yaclib {
void InjectFault() noexcept {}  // environment stub: a (possible) yield has no effect on a single thread's values
namespace detail {
std::uint64_t GetRandNumber(std::uint64_t max) {  // environment stub: any value the generator could return
  std::uint64_t r = vp_nondet_u64();
  vp_assume(r < max);
  return r;
}
}  // namespace detail
}  // namespace yaclib

template <class T> static std::uint64_t Norm(std::uint64_t x) {
  if constexpr (std::is_same_v<T, bool> || std::is_same_v<T, tflag>) return x & 1;
  else if constexpr (sizeof(T) == 8) return x;
  else return x & ((std::uint64_t{1} << (8 * sizeof(T))) - 1);
}
#define DECL(T, OP) extern "C" void step_p0_##T##_##OP(std::uint64_t, std::uint64_t, std::uint64_t, std::uint64_t*); \
  extern "C" void step_p1_##T##_##OP(std::uint64_t, std::uint64_t, std::uint64_t, std::uint64_t*);                   \
  extern "C" void step_p2_##T##_##OP(std::uint64_t, std::uint64_t, std::uint64_t, std::uint64_t*);
C19_ALL(DECL)

#define TAG(T, OP, B, F) "C19 T=" #T " op=" #OP " backend=" B " field=" F
#define WEAK(T, OP, B, o)                                                                                              \
  if (o[0]) {                                                                                                          \
    vp_assert(s == a, TAG(T, OP, B, "weak-success-only-if-equal"));                                                    \
    vp_assert(o[1] == b, TAG(T, OP, B, "weak-success-stores-desired"));                                                \
    vp_assert(o[2] == a, TAG(T, OP, B, "weak-success-keeps-expected"));                                                \
  } else {                                                                                                             \
    vp_assert(o[1] == s, TAG(T, OP, B, "weak-failure-changes-nothing"));                                               \
    vp_assert(o[2] == s, TAG(T, OP, B, "weak-failure-loads-current-into-expected"));                                   \
  }
#define SAME(T, OP, B, o)                                                                                              \
  vp_assert(o[0] == r[0], TAG(T, OP, B, "returned"));                                                                  \
  vp_assert(o[1] == r[1], TAG(T, OP, B, "stored"));                                                                    \
  vp_assert(o[2] == r[2], TAG(T, OP, B, "expected"));
#define CHK(T, OP)                                                                                                     \
  extern "C" void c19_##T##_##OP() {                                                                                   \
    std::uint64_t s = Norm<T>(vp_nondet_u64()), a = Norm<T>(vp_nondet_u64()), b = Norm<T>(vp_nondet_u64());            \
    std::uint64_t r[3], t[3], f[3];                                                                                    \
    step_p0_##T##_##OP(s, a, b, r);                                                                                    \
    step_p1_##T##_##OP(s, a, b, t);                                                                                    \
    step_p2_##T##_##OP(s, a, b, f);                                                                                    \
    if (OP == casw2 || OP == casw1) {                                                                                  \
      WEAK(T, OP, "STD", r) WEAK(T, OP, "THREAD", t) WEAK(T, OP, "FIBER", f)                                           \
      if (s != a) { vp_assert(!t[0], TAG(T, OP, "THREAD", "weak-must-fail-when-different")); vp_assert(!f[0], TAG(T, OP, "FIBER", "weak-must-fail-when-different")); } \
    } else {                                                                                                           \
      SAME(T, OP, "THREAD", t) SAME(T, OP, "FIBER", f)                                                                 \
    }                                                                                                                  \
    vp_reach("c19_" #T "_" #OP);                                                                                       \
  }
C19_ALL(CHK)
