// C06_kernel.cpp -- Tier K: the shared-core callback list of base_core.cpp (SetCallbackImpl<true>, SetInlineImpl<false,true>,
// SetResultImpl<false,true>: list walk + the three DecRefs) under EVERY interleaving of one fulfiller with two observers.
#include <yaclib/algo/detail/base_core.hpp>
#include "vp.h"
#include <atomic>
#include <new>
using namespace yaclib::detail;

static std::uint64_t g_v;
struct KCore final : BaseCore {
  KCore() noexcept : BaseCore{kEmpty} {}
  InlineCore* Here(InlineCore&) noexcept final { return nullptr; }
  void IncRef() noexcept final { ref.fetch_add(1, std::memory_order_relaxed); }
  void DecRef() noexcept final { if (ref.fetch_sub(1, std::memory_order_acq_rel) == 0) underflow = 1; }
  std::size_t GetRef() noexcept final { return ref.load(std::memory_order_acquire); }
  bool SetCallback(InlineCore& cb) noexcept { return SetCallbackImpl<true>(cb); }
  InlineCore* SetInline(InlineCore& cb) noexcept { return SetInlineImpl<false, true>(cb); }
  InlineCore* SetResult() noexcept { return SetResultImpl<false, true>(); }
  std::atomic<std::size_t> ref{3};       // kSharedRefWithFuture-like: promise + future + result owner
  unsigned underflow = 0;
  std::uint64_t payload[2] = {0, 0};
};
static bool Intact(const KCore& c) { return c.payload[0] == g_v && c.payload[1] == ~g_v; }
struct KCallback final : InlineCore {
  InlineCore* Here(InlineCore& caller) noexcept final {
    auto& c = static_cast<KCore&>(static_cast<BaseCore&>(caller));
    ++called;
    vp_hb_read(0);
    if (!Intact(c)) torn = 1;
    return nullptr;
  }
  unsigned called = 0, torn = 0;
};
alignas(16) static unsigned char vp_obj_core[sizeof(KCore)], vp_obj_cb0[sizeof(KCallback)], vp_obj_cb1[sizeof(KCallback)];
#define CORE (*reinterpret_cast<KCore*>(vp_obj_core))
#define CB0 (*reinterpret_cast<KCallback*>(vp_obj_cb0))
#define CB1 (*reinterpret_cast<KCallback*>(vp_obj_cb1))
static unsigned g_ready_torn, g_attached[2] = {2, 2};

extern "C" void c06k_prologue() {
  new (vp_obj_core) KCore{};
  new (vp_obj_cb0) KCallback{};
  new (vp_obj_cb1) KCallback{};
  g_v = vp_nondet_u64();
}
// SharedPromise::Set: Store(result); Loop(core, core->SetResult<false>())
extern "C" void c06k_fulfil() {
  CORE.payload[0] = g_v; CORE.payload[1] = ~g_v;
  vp_hb_write(0);
  Loop(&CORE, CORE.SetResult());
}
static void Observe(KCallback& cb, unsigned i, bool inline_form) {
  if (!CORE.Empty()) { vp_hb_read(0); if (!Intact(CORE)) g_ready_torn = 1; }   // SharedFuture::Ready()==true implies the value can be read
  if (inline_form) {
    // detail::SetCallback for shared cores: Loop(caller, caller->SetInline<false>(*callback))
    InlineCore* next = CORE.SetInline(cb);
    g_attached[i] = next == nullptr;
    Loop(&CORE, next);
  } else {
    // Connect / Wait: if (!SetCallback(cb)) { result is there: use it directly }
    g_attached[i] = CORE.SetCallback(cb);
    if (!g_attached[i]) { vp_hb_read(0); if (!Intact(CORE)) g_ready_torn = 1; }
  }
}
extern "C" void c06k_observer0_inline() { Observe(CB0, 0, true); }
extern "C" void c06k_observer1_inline() { Observe(CB1, 1, true); }
extern "C" void c06k_observer1_setcb() { Observe(CB1, 1, false); }
extern "C" void c06k_epilogue(unsigned obs1_inline) {
  vp_assert(!CORE.Empty(), "harness: not fulfilled");
  vp_assert(CB0.called == 1, "C06 an attached callback did not fire exactly once");
  if (obs1_inline || g_attached[1] == 1) vp_assert(CB1.called == 1, "C06 an attached callback did not fire exactly once");
  else vp_assert(CB1.called == 0, "C06 a callback that was refused (result already there) fired anyway");
  vp_assert(CB0.torn == 0 && CB1.torn == 0, "C06 an observer saw a partially written / different value");
  vp_assert(g_ready_torn == 0, "C06 Ready()==true (or a refused attach) but the value could not be read intact");
  vp_assert(CORE.underflow == 0 && CORE.ref.load() == 0, "C06 reference count of the shared core is not released exactly (SetResult drops 3 references)");
  if (g_attached[0] == 1 && g_attached[1] == 1) vp_reach("c06k both attached before the result");
  else if (g_attached[0] == 0 && g_attached[1] == 0) vp_reach("c06k both after the result");
  else vp_reach("c06k one before one after");
}
