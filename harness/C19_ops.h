// C19_ops.h -- the operation and type lists shared by the step TU (compiled once per backend) and the comparing TU.
#pragma once
// op classes: B = every T, A = arithmetic (integral, floating, pointer), I = integral only, P = integral and pointer
#define C19_OPS_B(X, T) X(T, load) X(T, store) X(T, conv) X(T, exchange) X(T, casw2) X(T, casw1) X(T, cass2) X(T, cass1) X(T, fence)
#define C19_OPS_A(X, T) X(T, fetch_add) X(T, fetch_sub) X(T, op_add) X(T, op_sub)
#define C19_OPS_P(X, T) X(T, pre_inc) X(T, post_inc) X(T, pre_dec) X(T, post_dec)
#define C19_OPS_I(X, T) X(T, fetch_and) X(T, fetch_or) X(T, fetch_xor) X(T, op_and) X(T, op_or) X(T, op_xor)
#define C19_INT(X, T) C19_OPS_B(X, T) C19_OPS_A(X, T) C19_OPS_P(X, T) C19_OPS_I(X, T)
#define C19_PTR(X, T) C19_OPS_B(X, T) C19_OPS_A(X, T) C19_OPS_P(X, T)
#define C19_FLT(X, T) C19_OPS_B(X, T) C19_OPS_A(X, T)
#define C19_BOOL(X, T) C19_OPS_B(X, T)
#define C19_ALL(X) C19_BOOL(X, tbool) C19_INT(X, ti8) C19_INT(X, tu8) C19_INT(X, ti16) C19_INT(X, tu16) C19_INT(X, ti32) C19_INT(X, tu32) \
  C19_INT(X, ti64) C19_INT(X, tu64) C19_PTR(X, tptr) C19_FLT(X, tf32) C19_FLT(X, tf64) X(tflag, tas) X(tflag, clear)
enum C19Op { load, store, assign, conv, exchange, casw2, casw1, cass2, cass1, fence, fetch_add, fetch_sub, op_add, op_sub,
             pre_inc, post_inc, pre_dec, post_dec, fetch_and, fetch_or, fetch_xor, op_and, op_or, op_xor, tas, clear };
