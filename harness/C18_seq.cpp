// C18_seq.cpp -- the real fiber lock implementations (src/fault/fiber/{mutex,recursive_mutex,shared_mutex}.cpp) against a
// MODEL of the fiber scheduler: FiberQueue::Wait parks the calling fiber and lets the other fibers of the scenario run
// (cooperative fibers interleave only at Wait points), NotifyOne/NotifyAll mark parked fibers runnable, Scheduler::GetId is
// the running fiber.  Ghost holder sets are updated only when an acquiring call RETURNS.
#include <yaclib/fault/detail/fiber/mutex.hpp>
#include <yaclib/fault/detail/fiber/recursive_mutex.hpp>
#include <yaclib/fault/detail/fiber/shared_mutex.hpp>
#include "vp.h"
using namespace yaclib::detail::fiber;

static unsigned g_cur = 1;                 // running fiber id (1 = A, 2 = B, 3 = C, 4 = D)
struct Parked { const void* q; unsigned notified, shared; };
static Parked g_park[4];                   // parked fibers, innermost last (sequentialisation: a parked fiber's stack frame hosts the fibers that run meanwhile)
static unsigned g_npark, g_waits, g_want_shared, g_got;
static unsigned g_excl, g_shared;          // ghost: holders as seen through successful returns
static bool g_bad_excl, g_bad_mix;

namespace yaclib::fault { yaclib::detail::fiber::FiberBase::Id Scheduler::GetId() { return g_cur; } }
namespace yaclib::detail {
std::uint64_t GetRandNumber(std::uint64_t max) { std::uint64_t r = vp_nondet_u64(); vp_assume(r < max); return r; }
namespace fiber {
WaitStatus FiberQueue::Wait(NoTimeoutTag) {
  ++g_waits;
  unsigned slot = g_npark++;
  vp_assume(slot < 4);
  g_park[slot].q = this; g_park[slot].notified = 0; g_park[slot].shared = g_want_shared;
  unsigned me = g_cur;
  for (int i = 0; i < 3 && !g_park[slot].notified; ++i)     // the other fibers of the scenario run while this one is parked
    if (!vp_yield_to_pending()) break;
  g_cur = me;
  if (!g_park[slot].notified) {
    for (unsigned i = 0; i < slot; ++i)
      if (g_park[i].notified) { vp_reach("c18 wake-up order not expressible by nesting (covered by the mirrored scenario)"); vp_assume(false); }
    // nobody is runnable any more: every fiber of the scenario is parked.  If the lock is available to one of them, that is a lost wake-up
    for (unsigned i = 0; i <= slot; ++i) {
      bool available = g_park[i].shared ? g_excl == 0 : (g_excl == 0 && g_shared == 0);
      vp_assert(!available, "C18 a blocked locker was not woken although the lock became available");
    }
    vp_reach("c18 legitimately blocked forever");
    vp_assume(false);
  }
  g_park[slot].q = nullptr;
  --g_npark;
  g_want_shared = g_park[slot].shared;
  return WaitStatus::Ready;
}
static unsigned Waiters(const void* q) { unsigned n = 0; for (unsigned i = 0; i < 4; ++i) n += i < g_npark && g_park[i].q == q && !g_park[i].notified; return n; }
void FiberQueue::NotifyOne() {             // the real queue picks a random parked fiber
  unsigned n = Waiters(this);
  if (n == 0) return;
  unsigned pick = vp_nondet_u32(); vp_assume(pick < n);
  for (unsigned i = 0; i < 4; ++i)
    if (i < g_npark && g_park[i].q == this && !g_park[i].notified) { if (pick == 0) { g_park[i].notified = 1; return; } --pick; }
}
void FiberQueue::NotifyAll() { for (unsigned i = 0; i < 4; ++i) if (i < g_npark && g_park[i].q == this) g_park[i].notified = 1; }
bool FiberQueue::Empty() const noexcept { return Waiters(this) == 0; }
FiberQueue::~FiberQueue() {}
}  // namespace fiber
}  // namespace yaclib::detail

static void GotExcl() { if (g_excl != 0) g_bad_excl = true; if (g_shared != 0) g_bad_mix = true; ++g_excl; ++g_got; }
static void GotShared() { if (g_excl != 0) g_bad_mix = true; ++g_shared; ++g_got; }
template <typename M> struct Ctx { static M m; };
template <typename M> M Ctx<M>::m;

// scenario: A holds (exclusive or shared) from the prologue; B (outer unit) calls lock()/lock_shared() and must block;
// the inner unit (fibers A and C) releases and possibly barges.
template <typename M> static void ProA_excl() { g_cur = 1; Ctx<M>::m.lock(); GotExcl(); }
template <typename M> static void B_lock() { g_cur = 2; Ctx<M>::m.lock(); GotExcl(); Ctx<M>::m.unlock(); --g_excl; }
template <typename M> static void A_unlock() { g_cur = 1; --g_excl; Ctx<M>::m.unlock(); }
template <typename M> static void A_unlock_C_trylock() {
  g_cur = 1; --g_excl; Ctx<M>::m.unlock();
  g_cur = 3; if (Ctx<M>::m.try_lock()) GotExcl();    // C barges in before B gets to run and keeps the lock
}
static void Epilogue() {
  vp_assert(!g_bad_excl, "C18 two exclusive holders at once (a woken locker took the lock without re-checking)");
  vp_assert(!g_bad_mix, "C18 exclusive and shared holders at once");
  vp_reach("c18 end");
}
#define SCEN(T, name) \
  extern "C" void c18_##name##_pro() { ProA_excl<T>(); } extern "C" void c18_##name##_B() { B_lock<T>(); } \
  extern "C" void c18_##name##_A_unlock() { A_unlock<T>(); } extern "C" void c18_##name##_A_unlock_C_try() { A_unlock_C_trylock<T>(); }
SCEN(Mutex, mutex) SCEN(RecursiveMutex, rec) SCEN(SharedMutex, shex)
// SharedMutex: shared waiter behind an exclusive holder; exclusive waiter behind a shared holder
extern "C" void c18_shsh_B() { g_cur = 2; g_want_shared = 1; Ctx<SharedMutex>::m.lock_shared(); GotShared(); Ctx<SharedMutex>::m.unlock_shared(); --g_shared; }
extern "C" void c18_shared_pro() { g_cur = 1; Ctx<SharedMutex>::m.lock_shared(); GotShared(); }
extern "C" void c18_shared_A_unlock() { g_cur = 1; --g_shared; Ctx<SharedMutex>::m.unlock_shared(); }
extern "C" void c18_shared_A_unlock_C_try() {
  g_cur = 1; --g_shared; Ctx<SharedMutex>::m.unlock_shared();
  g_cur = 3; if (Ctx<SharedMutex>::m.try_lock()) GotExcl();
}
extern "C" void c18_epilogue() { Epilogue(); }
// several parked lockers (general scheduler): fiber `id` locks in the given mode, holds across nothing, unlocks
template <typename M, unsigned Id> static void LockerEx() { g_cur = Id; g_want_shared = 0; Ctx<M>::m.lock(); g_cur = Id; GotExcl(); --g_excl; Ctx<M>::m.unlock(); }
template <unsigned Id> static void LockerSh() { g_cur = Id; g_want_shared = 1; Ctx<SharedMutex>::m.lock_shared(); g_cur = Id; GotShared(); --g_shared; Ctx<SharedMutex>::m.unlock_shared(); }
#define LOCKERS(T, name) \
  extern "C" void c18_##name##_L2() { LockerEx<T, 2>(); } extern "C" void c18_##name##_L3() { LockerEx<T, 3>(); } extern "C" void c18_##name##_L4() { LockerEx<T, 4>(); }
LOCKERS(Mutex, mutex) LOCKERS(RecursiveMutex, rec) LOCKERS(SharedMutex, shex)
extern "C" void c18_shsh_L2() { LockerSh<2>(); } extern "C" void c18_shsh_L3() { LockerSh<3>(); } extern "C" void c18_shsh_L4() { LockerSh<4>(); }
extern "C" void c18_epilogue_n(unsigned lockers) {
  vp_assert(g_npark == 0, "C18 a fiber is still parked at the end of the scenario");
  vp_assert(g_got == lockers + 1, "C18 not every locker obtained the lock (lost wake-up)");
  Epilogue();
}
// try_lock contract (no blocking): success only when compatible, failure only when incompatible; recursive re-entry by the owner
extern "C" void c18_try_contracts() {
  Mutex m; g_cur = 1;
  vp_assert(m.try_lock(), "C18 try_lock on a free mutex failed"); vp_assert(!m.try_lock(), "C18 try_lock on a held mutex succeeded"); m.unlock();
  vp_assert(m.try_lock(), "C18 try_lock after unlock failed"); m.unlock();
  RecursiveMutex r; g_cur = 1;
  vp_assert(r.try_lock() && r.try_lock(), "C18 recursive try_lock by the owner failed");
  g_cur = 2; vp_assert(!r.try_lock(), "C18 recursive try_lock by another fiber succeeded while held");
  g_cur = 1; r.unlock(); g_cur = 2; vp_assert(!r.try_lock(), "C18 recursive mutex released after the first of two unlocks");
  g_cur = 1; r.unlock(); g_cur = 2; vp_assert(r.try_lock(), "C18 recursive try_lock failed although fully released"); r.unlock();
  SharedMutex s; g_cur = 1;
  vp_assert(s.try_lock_shared() && s.try_lock_shared(), "C18 two shared holders must be compatible");
  vp_assert(!s.try_lock(), "C18 exclusive try_lock succeeded while shared holders exist");
  s.unlock_shared(); vp_assert(!s.try_lock(), "C18 exclusive try_lock succeeded while one shared holder remains");
  s.unlock_shared(); vp_assert(s.try_lock(), "C18 exclusive try_lock failed on a free shared_mutex");
  vp_assert(!s.try_lock_shared(), "C18 shared try_lock succeeded while exclusively held"); s.unlock();
  vp_reach("c18 try contracts");
}
