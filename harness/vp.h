// vp.h -- what a harness may use.  In the encoded build these are externals modelled by rt/vp_rt.c; in the native
// (replay / translation-validation) build they are defined by replay/vp_native.cpp.
#pragma once
#include <cstdint>
extern "C" {
std::uint32_t vp_nondet_u32() noexcept;
std::uint64_t vp_nondet_u64() noexcept;
std::uint8_t vp_nondet_u8() noexcept;
bool vp_nondet_bool() noexcept;
void vp_assume(bool) noexcept;
void vp_assert(bool, const char* tag) noexcept;   // tag must be a string literal
void vp_reach(const char* tag) noexcept;          // vacuity witness: must be reachable
void vp_observe(std::uint64_t tag, std::uint64_t value) noexcept;
std::uint64_t vp_alloc_count() noexcept;          // number of operator new calls so far
std::uint64_t vp_live_count() noexcept;           // heap blocks currently alive
std::uint64_t vp_thread_id() noexcept;
void vp_hb_write(std::uint32_t id) noexcept;       // C04 ghost: a plain write of tracked variable id happens here
void vp_hb_read(std::uint32_t id) noexcept;        // C04 ghost: a plain read of tracked variable id happens here (must be ordered after the write)
void vp_hb_sync_release(std::uint32_t id) noexcept;  // C04 ghost: a MODELLED hand-off (stub executor mailbox) publishes / observes, no schedule point
void vp_hb_sync_acquire(std::uint32_t id) noexcept;
void vp_sync_point() noexcept;                    // an explicit schedule point (sequentialised schedules may preempt here)
int vp_yield_to_pending() noexcept;               // run the pending unit now if it has not run yet (returns 1), else 0
}
