// C17_sched.cpp -- the REAL decision primitives of the fiber fault-injection runtime: src/fault/{util,injector,inject,atomic,config}.cpp
// and the scheduler's PollRandomElementFromList + BiList (src/fault/fiber/{scheduler,bidirectional_intrusive_list}.cpp), driven by a
// symbolic sequence of decision requests.  std::mt19937_64 is modelled (harness/model_random/random: an uninterpreted function of seed
// and draw index).  This TU is linked TWICE with all symbols suffixed (_vpc1, _vpc2): each copy has its own statics = a separate process.
#include <fault/util.hpp>

#include <yaclib/fault/config.hpp>
#include <yaclib/fault/detail/atomic.hpp>
#include <yaclib/fault/detail/fiber/scheduler.hpp>
#include <yaclib/fault/inject.hpp>
#include <yaclib/fault/injector.hpp>

#include <new>

#include "vp.h"
using namespace yaclib;
using namespace yaclib::detail::fiber;

extern "C" {
// shared between the copies (defined in the generated entry file, plain C)
std::uint32_t vp_c17_script(std::uint32_t step) noexcept;   // symbolic client program: which decision is requested at each step
std::uint32_t vp_c17_arg(std::uint32_t step) noexcept;
std::uint32_t vp_c17_is_pick(std::uint32_t step) noexcept;   // per-query constant: at this step the scheduler picks the next fiber
void vp_c17_log(std::uint32_t run, std::uint64_t event) noexcept;    // run 0 records, later runs are compared on the fly
}
enum : std::uint32_t { kPhaseLen = 4, kNodes = 3 };
enum Act : std::uint32_t { A_INJECT, A_CAS, A_RAND, A_PICK, A_NACT };
enum Ev : std::uint64_t { E_INJECT = 2, E_CAS, E_RAND, E_PICK, E_POINT, E_END };
static inline std::uint64_t Event(Ev e, std::uint64_t a, std::uint64_t b = 0) { return (std::uint64_t{e} << 56) ^ (a << 40) ^ (b & 0xffffffffffull); }

// run r builds its run queues in pool r (registered for pointer concretisation): the same fiber lives at a different address in every run
struct Pool { BiList list[kNodes]; Node node[6]; };
alignas(16) static unsigned char vp_obj_pool0[sizeof(Pool)], vp_obj_pool1[sizeof(Pool)];

static std::uint32_t Pick(Pool* p, std::uint32_t n) {   // a run queue of n fibers, freshly built; the scheduler picks one
  Node* first = n == 1 ? &p->node[0] : n == 2 ? &p->node[1] : &p->node[3];
  BiList& q = *new (&p->list[n - 1]) BiList{};
  for (std::uint32_t i = 0; i < n; ++i) q.PushBack(new (first + i) Node{});
  Node* got = PollRandomElementFromList(q);
  std::uint32_t which = 9;
  for (std::uint32_t i = 0; i < n; ++i) if (got == first + i) which = i;
  vp_assert(which < n, "C17 harness: the scheduler picked something that is not in the run queue");
  vp_assert(got->next == nullptr && got->prev == nullptr, "C17 harness: the picked fiber is still linked");
  return which;
}
static void Step(std::uint32_t run, std::uint32_t step) {
  if (vp_c17_is_pick(step)) {               // the scheduler picks the next fiber among 1..3 runnable ones (queue length: per-query constant)
    Pool* p = reinterpret_cast<Pool*>((run & 1) ? vp_obj_pool1 : vp_obj_pool0);
    vp_c17_log(run, Event(E_PICK, step, Pick(p, vp_c17_is_pick(step))));
    return;
  }
  switch (vp_c17_script(step)) {
    case A_INJECT: {                        // an injection point: may yield (outside a fiber the yield itself returns at once)
      auto before = GetInjectedCount();
      InjectFault();
      vp_c17_log(run, Event(E_INJECT, step, GetInjectedCount() - before));
    } break;
    case A_CAS: vp_c17_log(run, Event(E_CAS, step, detail::ShouldFailAtomicWeak())); break;
    case A_RAND: vp_c17_log(run, Event(E_RAND, step, detail::GetRandNumber(1 + vp_c17_arg(step)))); break;
    default: vp_assume(false);              // explicit cases only: symex folds the cases a query's action set excludes
  }
}
static void Phase(std::uint32_t run, std::uint32_t phase) {
  for (std::uint32_t i = 0; i < kPhaseLen; ++i) Step(run, phase * kPhaseLen + i);
  vp_c17_log(run, Event(E_POINT, phase, fiber::GetFaultRandomCount()));
  vp_c17_log(run, Event(E_POINT, phase, fiber::GetInjectorState()));
}

// the injected yield: the real RescheduleCurrent returns at once outside a fiber (sCurrent == nullptr); fiber_base.cpp is not linked
namespace yaclib::detail::fiber { void FiberBase::Suspend() { vp_assert(false, "C17 harness: Suspend outside a fiber"); } }
extern "C" void c17_config(std::uint32_t freq, std::uint32_t cas_freq, std::uint32_t pick) {
  SetFaultFrequency(freq); SetAtomicFailFrequency(cas_freq); fiber::SetFaultRandomListPick(pick);
}
// one complete run of the client program (phases 0 and 1) from the seed
extern "C" void c17_run(std::uint32_t run, std::uint32_t seed, std::uint32_t injector_state) {
  SetSeed(seed);
  fiber::SetInjectorState(injector_state);
  Phase(run, 0);
  Phase(run, 1);
  vp_c17_log(run, Event(E_END, 0, 0));
}
// a fresh process continuing at the recorded point between the phases
extern "C" void c17_restore(std::uint32_t run, std::uint32_t seed, std::uint64_t random_count, std::uint32_t injector_state) {
  SetSeed(seed);
  fiber::ForwardToFaultRandomCount(random_count);
  fiber::SetInjectorState(injector_state);
  Phase(run, 1);
  vp_c17_log(run, Event(E_END, 0, 0));
}
extern "C" std::uint32_t c17_injector_state() { return fiber::GetInjectorState(); }
