// MODEL of <ucontext.h> for the C17 check: the context switch itself is modelled (harness/C17_sched.cpp), so the saved
// register file is replaced by two words (keeps every fiber object small in the flat memory).
#pragma once
typedef struct vp_ucontext { void* vp_slot[2]; } ucontext_t;
