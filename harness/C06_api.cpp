// C06_api.cpp -- SharedFuture / SharedPromise through the public API (MakeSharedContract, copies, SubscribeInline, ThenInline,
// Then(e), Touch, Ready) as units of a sequentialised (Tier A) schedule: three observers attach before / while / after the
// fulfilment; the value type's move marks its source, so a value moved out for one observer would be seen by the others.
#include <yaclib/async/shared_contract.hpp>
#include <yaclib/async/shared_future.hpp>
#include <yaclib/async/shared_promise.hpp>
#include <new>
#include <utility>
#include "vp.h"
#include "vp_stub_exec.h"
using namespace yaclib;

struct MV {
  int v = 0;
  MV() = default;
  explicit MV(int x) : v{x} {}
  MV(const MV&) = default;
  MV& operator=(const MV&) = default;
  MV(MV&& o) noexcept : v{o.v} { o.v = -7; }
  MV& operator=(MV&& o) noexcept { v = o.v; o.v = -7; return *this; }
};
static vp::StubExec g_e;
static unsigned g_calls[4], g_state[4], g_fin_calls[4]; static int g_seen[4], g_fin_seen[4];
static int g_v; static unsigned g_kind;
alignas(16) static unsigned char g_sf_buf[2][sizeof(SharedFuture<MV>)], g_sp_buf[sizeof(SharedPromise<MV>)];
#define SF(i) (*reinterpret_cast<SharedFuture<MV>*>(g_sf_buf[i]))
#define SP (*reinterpret_cast<SharedPromise<MV>*>(g_sp_buf))
struct ObsR { unsigned i; void operator()(const Result<MV>& r) const noexcept { ++g_calls[i]; g_state[i] = (unsigned)r.State(); if (r) g_seen[i] = r.Value().v; } };   // by const reference
struct ObsV { unsigned i; int operator()(MV m) const noexcept { ++g_calls[i]; g_state[i] = (unsigned)ResultState::Value; g_seen[i] = m.v; return m.v; } };               // by value (a copy is made for it)
struct Fin { unsigned i; void operator()(Result<int>&& r) noexcept { ++g_fin_calls[i]; if (r) g_fin_seen[i] = std::as_const(r).Value(); else g_fin_seen[i] = -1; } };   // end of the unique chain that hangs off the shared future

extern "C" void c06a_prologue(unsigned kind, unsigned deferred) {
  g_kind = kind; g_e.deferred = deferred != 0; g_e.id = 1;
  g_v = (int)vp_nondet_u32(); vp_assume(g_v != -7);
  auto [f, p] = MakeSharedContract<MV>();
  new (g_sf_buf[0]) SharedFuture<MV>{f};          // two copies of the future, used by different logical threads
  new (g_sf_buf[1]) SharedFuture<MV>{std::move(f)};
  new (g_sp_buf) SharedPromise<MV>{std::move(p)};
}
extern "C" void c06a_pre_attach() { SF(0).SubscribeInline(ObsR{3}); }                       // an observer that was there before everything else
extern "C" void c06a_attach_a() { SF(0).SubscribeInline(ObsR{0}); SF(0).ThenInline(ObsV{1}).DetachInline(Fin{1}); }
extern "C" void c06a_attach_b() { SF(1).Then(g_e, ObsV{2}).DetachInline(Fin{2}); }
extern "C" void c06a_attach_late() { SF(1).SubscribeInline(ObsR{2}); if (SF(1).Ready()) vp_assert(std::as_const(SF(1)).Touch().State() != ResultState::Empty, "C06 Ready()==true but the result is not there"); }
extern "C" void c06a_fulfil() {
  if (g_kind == 0) std::move(SP).Set(MV{g_v});
  else if (g_kind == 1) std::move(SP).Set(StopTag{});
  else SP.~SharedPromise();                                   // dropped without a value: observers get the broken-promise error
}
static void Expect(unsigned i, bool attached) {
  if (!attached) { vp_assert(g_calls[i] == 0, "C06 an observer that never attached was called"); return; }
  bool by_value = (i == 1) || (i == 2 && g_fin_calls[2] != 0);     // ObsV observers take the value: they are skipped on failure, the chain's end sees the failure
  if (by_value) {
    vp_assert(g_fin_calls[i] == 1, "C06 the chain attached to the shared future must complete exactly once");
    if (g_kind == 0) vp_assert(g_calls[i] == 1 && g_seen[i] == g_v && g_fin_seen[i] == g_v, "C06 an observer saw a different value than the one that was set (moved-from or torn)");
    else vp_assert(g_calls[i] == 0 && g_fin_seen[i] == -1, "C06 a by-value observer must be skipped when the shared promise failed, and the failure must reach the end of its chain");
    return;
  }
  vp_assert(g_calls[i] == 1, "C06 an observer must be called exactly once");
  if (g_kind == 0) vp_assert(g_state[i] == (unsigned)ResultState::Value && g_seen[i] == g_v, "C06 an observer saw a different value than the one that was set (moved-from or torn)");
  else vp_assert(g_state[i] == (unsigned)ResultState::Error, "C06 an observer of a failed / dropped shared promise must see the error");
}
extern "C" void c06a_epilogue(unsigned mask) {               // mask: which observers attached (bit i)
  for (int i = 0; i < 3; ++i) g_e.Drain();
  for (unsigned i = 0; i < 4; ++i) Expect(i, (mask >> i) & 1);
  if (g_kind == 0) vp_assert(SF(0).Ready() && std::as_const(SF(0)).Touch().Value().v == g_v && std::as_const(SF(1)).Touch().Value().v == g_v, "C06 the shared state lost its value although copies of the future are still alive");
  SF(0).~SharedFuture(); SF(1).~SharedFuture();
  if (g_kind != 2) SP.~SharedPromise();
  vp_assert(vp_live_count() == 0, "C03 the shared state (or a callback core) is still alive after every handle was dropped");
  vp_reach("c06a end");
}
