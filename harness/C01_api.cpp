// C01_api.cpp -- the COMPLETE public API path of a Future/Promise pair: MakeContract, Promise::Set / ~Promise, and every
// consumer kind.  Used sequentially in both orders and as two units of a sequentialised schedule (Tier A): the unit
// named second runs to completion at the k-th atomic operation of the first (k = one cube per query).
// Payload is symbolic; producer kind, executor mode and consumer kind are enumerated (one query family each): values that
// steer pointers are kept concrete so that the solver sees near-concrete control flow per query.
#include <yaclib/async/connect.hpp>
#include <yaclib/async/contract.hpp>
#include <yaclib/async/future.hpp>
#include <yaclib/async/promise.hpp>
#include <yaclib/util/result.hpp>
#include "vp.h"
#include "vp_stub_exec.h"
#include <new>
using namespace yaclib;

alignas(16) static unsigned char g_f[sizeof(Future<int>)], g_p[sizeof(Promise<int>)];
alignas(16) static unsigned char g_f2[sizeof(Future<int>)], g_p2[sizeof(Promise<int>)];
#define F (*reinterpret_cast<Future<int>*>(g_f))
#define P (*reinterpret_cast<Promise<int>*>(g_p))
#define F2 (*reinterpret_cast<Future<int>*>(g_f2))
#define P2 (*reinterpret_cast<Promise<int>*>(g_p2))
static int g_v;
static unsigned g_pkind;            // 0 value, 1 error (StopTag), 2 exception, 3 Promise dropped unset
static unsigned g_called, g_polled;
static bool g_state_ok = true, g_value_ok = true, g_produced;
static vp::StubExec g_exec;

static ResultState Expected() {
  return g_pkind == 0 ? ResultState::Value : g_pkind == 2 ? ResultState::Exception : ResultState::Error;
}
template <typename R>
static void Check(R&& r) {
  g_state_ok = g_state_ok && r.State() == Expected();
  if (r.State() == ResultState::Value) g_value_ok = g_value_ok && std::as_const(r).Value() == g_v;
}
struct Callback {
  void operator()(Result<int>&& r) noexcept { ++g_called; Check(r); }
};

extern "C" void c01a_prologue(unsigned pkind, unsigned deferred) {
  auto [f, p] = MakeContract<int>();
  new (g_f) Future<int>{std::move(f)};
  new (g_p) Promise<int>{std::move(p)};
  g_v = (int)vp_nondet_u32();
  g_pkind = pkind;        // producer kind and executor mode are per-query constants (they steer pointers: kept concrete)
  g_exec.deferred = deferred != 0;
}

extern "C" void c01a_produce() {
  switch (g_pkind) {
    case 0: std::move(P).Set(g_v); break;
    case 1: std::move(P).Set(StopTag{}); break;
    case 2: {
      std::exception_ptr e;
      try { throw g_v; } catch (...) { e = std::current_exception(); }
      std::move(P).Set(std::move(e));
    } break;
    default: P.~Promise(); break;  // dropped unset -> StopError
  }
  g_produced = true;
}

template <int C>
static void Consume() {
  if constexpr (C == 0) { (void)std::move(F).ThenInline(Callback{}); }          // returned Future dropped at once
  else if constexpr (C == 1) { (void)std::move(F).Then(g_exec, Callback{}); }
  else if constexpr (C == 2) { std::move(F).Detach(g_exec, Callback{}); }
  else if constexpr (C == 3) { std::move(F).DetachInline(Callback{}); }
  else if constexpr (C == 4) { std::move(F).Detach(); }
  else if constexpr (C == 5) { F.~Future(); }
  else if constexpr (C == 6) {
    if (F.Ready()) { ++g_polled; Check(*std::as_const(F).Get()); Check(std::as_const(F).Touch()); }
    std::move(F).DetachInline(Callback{});
  } else if constexpr (C == 7) {
    auto [f2, p2] = MakeContract<int>();
    bool before = g_exec.deferred;  // per-query constant: attach the final continuation before / after Connect
    if (before) std::move(f2).DetachInline(Callback{});
    Connect(std::move(F), std::move(p2));
    if (!before) std::move(f2).DetachInline(Callback{});
  }
}
extern "C" void c01a_consume_then_inline() { Consume<0>(); }
extern "C" void c01a_consume_then() { Consume<1>(); }
extern "C" void c01a_consume_detach_on() { Consume<2>(); }
extern "C" void c01a_consume_detach_inline() { Consume<3>(); }
extern "C" void c01a_consume_detach() { Consume<4>(); }
extern "C" void c01a_consume_drop() { Consume<5>(); }
extern "C" void c01a_consume_poll() { Consume<6>(); }
extern "C" void c01a_consume_connect() { Consume<7>(); }

static void Common() {
  g_exec.Drain();
  vp_assert(g_state_ok, "C01 consumer observed a Result state different from what was Set (StopError if dropped)");
  vp_assert(g_value_ok, "C01 consumer observed a value different from what was Set");
  vp_assert(vp_live_count() == 0, "C03 something allocated for the pipeline is still alive at quiescence");
}
extern "C" void c01a_epilogue_cb() {
  Common();
  vp_assert(g_called == 1, "C01 continuation invoked exactly once");
  vp_reach("c01a callback epilogue");
}
extern "C" void c01a_epilogue_nocb() {
  Common();
  vp_assert(g_called == 0, "C01 something ran although the Future was dropped");
  vp_reach("c01a no-callback epilogue");
}
