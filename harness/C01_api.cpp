// C01_api.cpp -- Tier A/K over the COMPLETE public API path: MakeContract, Promise::Set / ~Promise, every consumer kind.
#include <yaclib/async/contract.hpp>
#include <yaclib/async/future.hpp>
#include <yaclib/async/promise.hpp>
#include <yaclib/util/result.hpp>
#include "vp.h"
#include <new>
using namespace yaclib;

alignas(16) static unsigned char vp_obj_f[sizeof(Future<int>)];
alignas(16) static unsigned char vp_obj_p[sizeof(Promise<int>)];
#define F (*reinterpret_cast<Future<int>*>(vp_obj_f))
#define P (*reinterpret_cast<Promise<int>*>(vp_obj_p))
static int g_v;
static unsigned g_called;
static bool g_ok;

extern "C" void c01a_prologue() {
  auto [f, p] = MakeContract<int>();
  new (vp_obj_f) Future<int>{std::move(f)};
  new (vp_obj_p) Promise<int>{std::move(p)};
  g_v = (int)vp_nondet_u32();
}
extern "C" void c01a_set_value() { std::move(P).Set(g_v); }
extern "C" void c01a_detach_inline() {
  std::move(F).DetachInline([](Result<int>&& r) noexcept {
    ++g_called;
    g_ok = r.State() == ResultState::Value && std::move(r).Ok() == g_v;
  });
}
extern "C" void c01a_epilogue() {
  vp_assert(g_called == 1, "C01 continuation invoked exactly once");
  vp_assert(g_ok, "C01 continuation saw the Result that was Set");
  vp_assert(vp_live_count() == 0, "C03 nothing allocated remains at quiescence");
  vp_reach("c01a end");
}
