// C01_kernel.cpp -- Tier K: the callback-word hand-off of base_core.cpp under EVERY interleaving (CBMC threads).
// Real code: BaseCore::{SetCallbackImpl<false>, SetInlineImpl<false,false>, SetResultImpl<false,false>, ResetImpl, Empty},
// Loop/Step.  Stubs: a BaseCore subclass carrying a plain multi-word payload (stands for the Result) and leaf InlineCore
// callbacks that record what they see.  All objects have static storage: their addresses are link-time constants.
#include <yaclib/algo/detail/base_core.hpp>
#include "vp.h"
#include <atomic>
#include <new>

using namespace yaclib::detail;

struct KCore final : BaseCore {
  KCore() noexcept : BaseCore{kEmpty} {}
  InlineCore* Here(InlineCore&) noexcept final { vp_assert(false, "K: core itself used as a callback"); return nullptr; }
  bool SetCallback(InlineCore& cb) noexcept { return SetCallbackImpl<false>(cb); }
  InlineCore* SetInline(InlineCore& cb) noexcept { return SetInlineImpl<false, false>(cb); }
  InlineCore* SetResult() noexcept { return SetResultImpl<false, false>(); }
  bool Reset() noexcept { return ResetImpl(); }
  std::uint64_t payload[3] = {0, 0, 0};  // multi-word: tearing / early delivery would show
};

static std::uint64_t g_v;  // what the producer sets (chosen by the solver before the threads start)

static bool PayloadIs(const KCore& c, std::uint64_t v) { return c.payload[0] == v && c.payload[1] == ~v && c.payload[2] == (v ^ 0x5555); }

struct KCallback final : InlineCore {
  InlineCore* Here(InlineCore& caller) noexcept final {
    auto& c = static_cast<KCore&>(static_cast<BaseCore&>(caller));
    ++called;
    vp_hb_read(0);   // C04: the Result is read here
    intact = PayloadIs(c, g_v);
    signalled.store(1, std::memory_order_release);   // as the real event: Set() happens under the event's mutex
    return nullptr;
  }
  std::atomic<unsigned> signalled{0};
  unsigned called = 0;
  bool intact = false;
};

alignas(16) static unsigned char vp_obj_core[sizeof(KCore)];
alignas(16) static unsigned char vp_obj_cb[sizeof(KCallback)];
alignas(16) static unsigned char vp_obj_ev[sizeof(KCallback)];
#define CORE (*reinterpret_cast<KCore*>(vp_obj_core))
#define CB (*reinterpret_cast<KCallback*>(vp_obj_cb))
#define EV (*reinterpret_cast<KCallback*>(vp_obj_ev))
static bool g_ready_seen, g_ready_ok = true, g_reset_won, g_timed_out, g_wait_done;

extern "C" void c01k_prologue() {
  new (vp_obj_core) KCore{};
  new (vp_obj_cb) KCallback{};
  new (vp_obj_ev) KCallback{};
  g_v = vp_nondet_u64();
}

// Promise::Set / ~Promise : Store(result); Loop(core, core->SetResult<false>())
extern "C" void c01k_producer() {
  CORE.payload[0] = g_v; CORE.payload[1] = ~g_v; CORE.payload[2] = g_v ^ 0x5555;
  vp_hb_write(0);  // C04: the Result (and everything the producer did before) is written here
  Loop(&CORE, CORE.SetResult());
}

static void Bystander() {  // FutureBase::Ready() / Get() const& : Ready()==true implies the Result can be read
  if (!CORE.Empty()) {
    g_ready_seen = true;
    vp_hb_read(0);
    g_ready_ok = PayloadIs(CORE, g_v);
  }
}

// detail::SetCallback (Then / ThenInline / Detach(e,f) / DetachInline / Connect): Loop(caller, caller->SetInline<false>(*cb))
extern "C" void c01k_consumer_setinline() {
  Bystander();
  Loop(&CORE, CORE.SetInline(CB));
}

// FutureBase::Detach() / ~FutureBase : core->CallInline(cb)
extern "C" void c01k_consumer_callinline() {
  Bystander();
  if (!CORE.SetCallback(CB)) {
    InlineCore* next = CB.Here(CORE);
    vp_assert(next == nullptr, "K: CallInline continuation returned a next core");
  }
}

// Wait / Get&& : if (SetCallback(event)) block until the event fires; then the Result is read.
// WaitFor: the block may end by time-out (free Boolean) -> Reset(); if Reset loses, the waiter must keep waiting.
extern "C" void c01k_consumer_wait() {
  if (CORE.SetCallback(EV)) {
    g_timed_out = vp_nondet_bool();
    if (g_timed_out) {
      g_reset_won = CORE.Reset();
      if (g_reset_won) {
        // not ready: the future is handed back intact; a continuation attached later must still fire exactly once
        Loop(&CORE, CORE.SetInline(CB));
        return;
      }
    }
    vp_assume(EV.signalled.load(std::memory_order_acquire) != 0);  // block until signalled (the real code blocks on a mutex/condvar event: Wait() returns under the same mutex)
  }
  g_wait_done = true;
  vp_hb_read(0);
  vp_assert(!CORE.Empty(), "C01 Wait returned but Ready() is false");
  vp_assert(PayloadIs(CORE, g_v), "C01 Wait/Get returned before the Result could be read intact");
}

static const std::uintptr_t kResultWord = ~std::uintptr_t{0};

extern "C" void c01k_epilogue_cb() {
  vp_assert(CB.called == 1, "C01 continuation invoked exactly once (lost or duplicated completion)");
  vp_assert(CB.intact, "C01 continuation saw a Result different from what was Set (early or torn delivery)");
  vp_assert(g_ready_ok, "C01 Ready()==true but the Result could not be read intact");
  vp_assert(!CORE.Empty(), "C01 core not Ready at quiescence");
  if (g_ready_seen) vp_reach("c01k ready observed before attach");
  else vp_reach("c01k attach before ready");
}

extern "C" void c01k_epilogue_wait() {
  if (g_wait_done) {
    vp_assert(CB.called == 0, "C01 waiter's continuation ran although Wait completed");
    vp_assert(EV.called <= 1, "C01 event signalled more than once");
  } else {
    vp_assert(g_timed_out && g_reset_won, "C01 timed wait gave up without winning Reset");
    vp_assert(EV.called == 0, "C01 completion touched the waiter after a timed-out wait returned");
    vp_assert(CB.called == 1 && CB.intact, "C01 after a timed-out wait the future must still deliver exactly once, intact");
  }
  vp_assert(!CORE.Empty(), "C01 core not Ready at quiescence");
  if (g_wait_done && g_timed_out) vp_reach("c01k timeout lost the Reset race and kept waiting");
  if (!g_wait_done) vp_reach("c01k timeout won the Reset race");
  if (g_wait_done && EV.called == 0) vp_reach("c01k wait found the result already there");
}
