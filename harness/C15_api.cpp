// C15_api.cpp -- yaclib::Mutex (C14, real awaiters) and yaclib::SharedMutex (C15) driven by REAL coroutines on stub executors.
// Units of the sequentialised schedule: "start coroutine i" (runs until it parks on the mutex or finishes); a parked coroutine is
// resumed by the releasing coroutine through the real awaiters / executors.  Every critical section contains a schedule point.
#include <yaclib/async/contract.hpp>
#include <yaclib/coro/await.hpp>
#include <yaclib/coro/future.hpp>
#include <yaclib/coro/mutex.hpp>
#include <yaclib/coro/on.hpp>
#include <yaclib/coro/shared_mutex.hpp>
#include "vp.h"
#include "vp_stub_exec.h"
using namespace yaclib;
#ifndef OPT_A
#define OPT_A true
#endif
#ifndef OPT_B
#define OPT_B false
#endif
static vp::StubExec g_a, g_b;
static Mutex<OPT_A, OPT_B> g_m;                 // <Batching, FIFO>
static SharedMutex<OPT_A, OPT_B> g_sm;          // <FIFO, ReadersFIFO>
static unsigned g_w_in, g_r_in, g_bad_ww, g_bad_rw, g_done, g_cs_exec[4], g_finals;
alignas(16) static unsigned char g_hf[sizeof(Future<>)], g_hp[sizeof(Promise<>)];   // a holder parks on this future INSIDE its critical section
#define HF (*reinterpret_cast<Future<>*>(g_hf))
#define HP (*reinterpret_cast<Promise<>*>(g_hp))
static unsigned g_released;
static unsigned g_plain, g_plain_bad;           // a plain variable written in one critical section and read in the next

static void WriterCS(unsigned id) {
  if (++g_w_in != 1) g_bad_ww = 1;
  if (g_r_in != 0) g_bad_rw = 1;
  g_cs_exec[id] = vp::vp_cur_exec_id;
  vp_hb_write(0);                               // C04 ghost: the protected data; consecutive critical sections must be ordered by happens-before
  unsigned seen = g_plain; g_plain = seen + 1;
  vp_sync_point();                              // another unit may run while this holder is inside
  if (g_plain != seen + 1) g_plain_bad = 1;     // nobody else may have been inside meanwhile
  --g_w_in;
}
static void ReaderCS(unsigned id) {
  ++g_r_in;
  if (g_w_in != 0) g_bad_rw = 1;
  vp_hb_read(0);
  unsigned seen = g_plain;
  vp_sync_point();
  if (g_plain != seen) g_plain_bad = 1;         // no writer may have been inside while a reader is
  --g_r_in;
}
// form: Mutex 0 Lock/Unlock, 1 Guard, 2 Lock/UnlockHere, 3 Lock/UnlockOn(b), 4 GuardSticky; SharedMutex 10 Lock/UnlockHere, 11 Guard, 12 LockShared/UnlockHereShared, 13 GuardShared
template <unsigned Form>
static Future<> Worker(unsigned id) {
  co_await On(g_a);
  if constexpr (Form == 0) { co_await g_m.Lock(); WriterCS(id); co_await g_m.Unlock(); }
  else if constexpr (Form == 1) { auto g = co_await g_m.Guard(); WriterCS(id); }
  else if constexpr (Form == 2) { co_await g_m.Lock(); WriterCS(id); g_m.UnlockHere(); }
  else if constexpr (Form == 3) { co_await g_m.Lock(); WriterCS(id); co_await g_m.UnlockOn(g_b); }
  else if constexpr (Form == 4) { auto g = co_await g_m.GuardSticky(); WriterCS(id); co_await g.Unlock(); }
  else if constexpr (Form == 10) { co_await g_sm.Lock(); WriterCS(id); g_sm.UnlockHere(); }
  else if constexpr (Form == 11) { auto g = co_await g_sm.Guard(); WriterCS(id); }
  else if constexpr (Form == 12) { co_await g_sm.LockShared(); ReaderCS(id); g_sm.UnlockHereShared(); }
  else if constexpr (Form == 13) { auto g = co_await g_sm.GuardShared(); ReaderCS(id); }
  else if constexpr (Form == 20) { co_await g_sm.Lock(); ++g_w_in; co_await std::move(HF); if (g_r_in != 0 || g_w_in != 1) g_bad_rw = 1; --g_w_in; g_sm.UnlockHere(); }        // writer holding across a suspension
  else if constexpr (Form == 21) { co_await g_sm.LockShared(); ++g_r_in; co_await std::move(HF); if (g_w_in != 0) g_bad_rw = 1; --g_r_in; g_sm.UnlockHereShared(); }   // reader holding across a suspension
  else if constexpr (Form == 22) { co_await g_m.Lock(); ++g_w_in; co_await std::move(HF); if (g_w_in != 1) g_bad_ww = 1; --g_w_in; co_await g_m.Unlock(); }
  ++g_done;
  co_return {};
}
struct Fin { void operator()(Result<>&&) noexcept { ++g_finals; } };
extern "C" void c15_prologue(unsigned deferred) {
  g_a.id = 1; g_b.id = 2; g_a.deferred = g_b.deferred = deferred != 0;
  auto [f, p] = MakeContract<>();
  new (g_hf) Future<>{std::move(f)}; new (g_hp) Promise<>{std::move(p)};
}
extern "C" void c15_release() { g_released = 1; std::move(HP).Set(); }   // lets the parked holder finish its critical section
extern "C" void c15_drain() { g_a.Drain(); g_b.Drain(); }
extern "C" void c15_start_w_hold_3() { Worker<20>(3).DetachInline(Fin{}); }
extern "C" void c15_start_r_hold_3() { Worker<21>(3).DetachInline(Fin{}); }
extern "C" void c15_start_m_hold_3() { Worker<22>(3).DetachInline(Fin{}); }
#define START(name, form, id) extern "C" void c15_start_##name##_##id() { Worker<form>(id).DetachInline(Fin{}); } \
  extern "C" void c15_startd_##name##_##id() { Worker<form>(id).DetachInline(Fin{}); g_a.Drain(); g_b.Drain(); }   /* deferred executors: start AND let it run up to its lock request */
#define START3(name, form) START(name, form, 0) START(name, form, 1) START(name, form, 2)
START3(lock_unlock, 0) START3(guard, 1) START3(lock_unlockhere, 2) START3(lock_unlockon, 3) START3(guardsticky, 4)
START3(w_lock, 10) START3(w_guard, 11) START3(r_lock, 12) START3(r_guard, 13)
extern "C" void c15_try_mutex() { if (g_m.TryLock()) { if (g_w_in != 0) g_bad_ww = 1; ++g_w_in; vp_sync_point(); --g_w_in; g_m.UnlockHere(); } }
extern "C" void c15_try_shared_w() { if (g_sm.TryLock()) { if (g_w_in != 0) g_bad_ww = 1; if (g_r_in != 0) g_bad_rw = 1; ++g_w_in; vp_sync_point(); --g_w_in; g_sm.UnlockHere(); } }
extern "C" void c15_try_shared_r() { if (g_sm.TryLockShared()) { if (g_w_in != 0) g_bad_rw = 1; ++g_r_in; vp_sync_point(); --g_r_in; g_sm.UnlockHereShared(); } }
extern "C" void c15_epilogue(unsigned workers, unsigned shared) {
  if (!g_released) { std::move(HF).Detach(); HP.~Promise(); }   // the hold contract is not part of this scenario
  for (int i = 0; i < 6; ++i) { g_a.Drain(); g_b.Drain(); }
  vp_assert(g_a.n == 0 && g_b.n == 0, "VP-BOUND: work left after the drain bound");
  vp_assert(g_bad_ww == 0, "C14/C15 two exclusive holders inside the critical section at once");
  vp_assert(g_bad_rw == 0, "C15 an exclusive holder overlapped with a shared holder");
  vp_assert(g_plain_bad == 0, "C14/C15 what one critical section wrote was not what the next one saw (another holder was inside meanwhile)");
  vp_assert(g_done == workers && g_finals == workers, "C14/C15 a lock request was never granted (lost wake-up: a coroutine stays parked although every holder released)");
  if (!shared) vp_assert(g_m.TryLock(), "C14 mutex not free at quiescence");
  else {
    vp_assert(g_sm.TryLock(), "C15 shared mutex not free at quiescence (a count did not cancel)");
    if (shared == 2) {
      // while this writer holds, a reader that arrives must park: a reader credit left behind by an earlier race would let it in
      unsigned done0 = g_done;
      g_a.deferred = g_b.deferred = false;
      ++g_w_in;
      Worker<12>(0).DetachInline(Fin{});
      vp_assert(g_done == done0 && g_bad_rw == 0, "C15 a reader entered while a writer holds the lock (a stale reader credit was left behind)");
      --g_w_in;
      g_sm.UnlockHere();
      vp_assert(g_done == done0 + 1, "C15 a reader that queued behind the last writer was never granted");
    } else {
      g_sm.UnlockHere();
    }
    vp_assert(g_sm.TryLockShared(), "C15 shared mutex not free for readers at quiescence");
  }
  vp_assert(vp_live_count() == 0, "C03 a coroutine frame is still alive at quiescence");
  vp_reach("c15 end");
}
