// C07_kernel.cpp -- Tier K: the real Strand (src/exe/strand.cpp) under every interleaving of submitters with its own batch runs.
// Stubs: underlying executor = one-slot mailbox (a second concurrent scheduling of the strand is itself a failure),
// optionally stopped (then it Drops what is submitted); leaf jobs that record overlap, order and Call/Drop counts.
#include <yaclib/exe/strand.hpp>
#include "vp.h"
#include <atomic>
#include <new>
using namespace yaclib;

#ifndef NJOBS
#define NJOBS 3
#endif
static unsigned g_inside, g_overlap, g_order_bad;
static unsigned g_last_of[2];  // last job sequence number run, per submitter

struct KJob final : Job {
  void Call() noexcept final {
    if (++g_inside != 1) g_overlap = 1;
    ++calls;
    if (seq <= g_last_of[owner]) g_order_bad = 1;
    g_last_of[owner] = seq;
    --g_inside;
  }
  void Drop() noexcept final { ++drops; }
  unsigned calls = 0, drops = 0, owner = 0, seq = 0;
};

struct KExec final : IExecutor {
  Type Tag() const noexcept final { return Type::Custom; }
  bool Alive() const noexcept final { return !stopped; }
  void Submit(Job& job) noexcept final {
    if (stopped) { ++refused; job.Drop(); return; }
    Job* prev = slot.exchange(&job, std::memory_order_acq_rel);
    if (prev != nullptr) twice = 1;
  }
  std::atomic<Job*> slot{nullptr};
  unsigned twice = 0, refused = 0;
  bool stopped = false;
};

alignas(16) static unsigned char vp_obj_strand[sizeof(Strand)];
alignas(16) static unsigned char vp_obj_exec[sizeof(KExec)];
alignas(16) static unsigned char vp_obj_job0[sizeof(KJob)], vp_obj_job1[sizeof(KJob)], vp_obj_job2[sizeof(KJob)], vp_obj_job3[sizeof(KJob)];
#define STRAND (*reinterpret_cast<Strand*>(vp_obj_strand))
#define EXEC (*reinterpret_cast<KExec*>(vp_obj_exec))
static KJob& J(int i) {
  unsigned char* b = i == 0 ? vp_obj_job0 : i == 1 ? vp_obj_job1 : i == 2 ? vp_obj_job2 : vp_obj_job3;
  return *reinterpret_cast<KJob*>(b);
}

extern "C" void c07k_prologue(unsigned stopped) {
  new (vp_obj_exec) KExec{};
  EXEC.stopped = stopped != 0;
  new (vp_obj_strand) Strand{IExecutorPtr{NoRefTag{}, &EXEC}};
  new (vp_obj_job0) KJob{}; new (vp_obj_job1) KJob{}; new (vp_obj_job2) KJob{}; new (vp_obj_job3) KJob{};  // constant addresses: dynamic types known
  J(0).owner = 0; J(0).seq = 1; J(1).owner = 0; J(1).seq = 2;   // submitter 0: job0 then job1 (program order)
  J(2).owner = 1; J(2).seq = 1; J(3).owner = 1; J(3).seq = 2;   // submitter 1: job2 (then job3)
}
extern "C" void c07k_submitter0() { STRAND.Submit(J(0)); STRAND.Submit(J(1)); }
extern "C" void c07k_submitter1() { if (NJOBS > 2) STRAND.Submit(J(2)); if (NJOBS > 3) STRAND.Submit(J(3)); }
static void Poll() {
  Job* j = EXEC.slot.exchange(nullptr, std::memory_order_acq_rel);
  if (j != nullptr) j->Call();
}
extern "C" void c07k_worker() { Poll(); Poll(); }  // a pool worker taking the strand twice at arbitrary moments
extern "C" void c07k_epilogue() {
  for (int i = 0; i < 3; ++i) Poll();  // quiescence drain: whatever is still scheduled runs now
  vp_assert(EXEC.slot.load() == nullptr, "VP-BOUND: strand still scheduled after the drain bound");
  vp_assert(EXEC.twice == 0, "C07 strand scheduled on the underlying executor while already scheduled (two batches could run concurrently)");
  vp_assert(g_overlap == 0, "C07 two strand jobs ran concurrently");
  vp_assert(g_order_bad == 0, "C07 jobs of one submitting thread ran out of program order");
  for (int i = 0; i < NJOBS; ++i) {
    vp_assert(J(i).calls + J(i).drops == 1, "C07 job neither Called nor Dropped exactly once (lost or duplicated)");
    if (!EXEC.stopped) vp_assert(J(i).drops == 0, "C07 job Dropped although the underlying executor accepted work");
    else vp_assert(J(i).calls == 0, "C07 job Called although the underlying executor refused the strand");
  }
  vp_reach("c07k end");
}
