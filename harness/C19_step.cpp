// C19_step.cpp -- one step of every yaclib_std::atomic<T> operation from an arbitrary stored value.
// Compiled three times: YACLIB_FAULT=0 (yaclib_std::atomic == std::atomic: the reference), =1 (THREAD wrapper),
// =2 (FIBER re-implementation); VP_PFX names the build.  out = {returned value, stored value afterwards, expected afterwards}.
#include <yaclib_std/atomic>
#include <cstdint>
#include <cstring>
#include "C19_ops.h"
using tbool = bool; using ti8 = std::int8_t; using tu8 = std::uint8_t; using ti16 = std::int16_t; using tu16 = std::uint16_t;
using ti32 = std::int32_t; using tu32 = std::uint32_t; using ti64 = std::int64_t; using tu64 = std::uint64_t;
using tptr = int*; using tf32 = float; using tf64 = double;
template <class T> static T From(std::uint64_t x) { T t; std::memcpy(&t, &x, sizeof t); return t; }
template <class T> static std::uint64_t To(T t) { std::uint64_t x = 0; std::memcpy(&x, &t, sizeof t); return x; }
template <class T> struct ArgOf { using type = T; };
template <class U> struct ArgOf<U*> { using type = std::ptrdiff_t; };

template <class T, int Op>
static void Step(std::uint64_t s, std::uint64_t a, std::uint64_t bb, std::uint64_t* out) {
  yaclib_std::atomic<T> x{From<T>(s)};
  T av = From<T>(a), bv = From<T>(bb);
  using A = typename ArgOf<T>::type;
  A arg = From<A>(a);
  T exp = av;
  std::uint64_t ret = 0;
  if constexpr (Op == load) ret = To<T>(x.load(std::memory_order_acquire));
  else if constexpr (Op == store) x.store(av, std::memory_order_release);

  else if constexpr (Op == conv) { T v = x; ret = To<T>(v); }
  else if constexpr (Op == exchange) ret = To<T>(x.exchange(av, std::memory_order_acq_rel));
  else if constexpr (Op == casw2) ret = x.compare_exchange_weak(exp, bv, std::memory_order_acq_rel, std::memory_order_acquire);
  else if constexpr (Op == casw1) ret = x.compare_exchange_weak(exp, bv);
  else if constexpr (Op == cass2) ret = x.compare_exchange_strong(exp, bv, std::memory_order_acq_rel, std::memory_order_acquire);
  else if constexpr (Op == cass1) ret = x.compare_exchange_strong(exp, bv);
  else if constexpr (Op == fence) { yaclib_std::atomic_thread_fence(std::memory_order_seq_cst); yaclib_std::atomic_signal_fence(std::memory_order_seq_cst); }
  else if constexpr (Op == fetch_add) ret = To<T>(x.fetch_add(arg, std::memory_order_relaxed));
  else if constexpr (Op == fetch_sub) ret = To<T>(x.fetch_sub(arg, std::memory_order_acq_rel));
  else if constexpr (Op == fetch_and) ret = To<T>(x.fetch_and(av, std::memory_order_acq_rel));
  else if constexpr (Op == fetch_or) ret = To<T>(x.fetch_or(av, std::memory_order_relaxed));
  else if constexpr (Op == fetch_xor) ret = To<T>(x.fetch_xor(av, std::memory_order_seq_cst));
  else if constexpr (Op == pre_inc) ret = To<T>(++x);
  else if constexpr (Op == post_inc) ret = To<T>(x++);
  else if constexpr (Op == pre_dec) ret = To<T>(--x);
  else if constexpr (Op == post_dec) ret = To<T>(x--);
  else if constexpr (Op == op_add) ret = To<T>(x += arg);
  else if constexpr (Op == op_sub) ret = To<T>(x -= arg);
  else if constexpr (Op == op_and) ret = To<T>(x &= av);
  else if constexpr (Op == op_or) ret = To<T>(x |= av);
  else if constexpr (Op == op_xor) ret = To<T>(x ^= av);
  out[0] = ret;
  out[1] = To<T>(x.load(std::memory_order_relaxed));
  out[2] = To<T>(exp);
}

struct tflag {};
template <int Op>
static void StepFlag(std::uint64_t s, std::uint64_t*, std::uint64_t* out) {
  yaclib_std::atomic_flag f{};
  if (s & 1) (void)f.test_and_set(std::memory_order_relaxed);
  std::uint64_t ret = 0;
  if constexpr (Op == tas) ret = f.test_and_set(std::memory_order_acq_rel);
  else f.clear(std::memory_order_release);
  out[0] = ret;
  out[1] = f.test_and_set(std::memory_order_seq_cst);
  out[2] = 0;
}
template <class T, int Op> struct Sel { static void Go(std::uint64_t s, std::uint64_t a, std::uint64_t b, std::uint64_t* o) { Step<T, Op>(s, a, b, o); } };
template <int Op> struct Sel<tflag, Op> { static void Go(std::uint64_t s, std::uint64_t, std::uint64_t, std::uint64_t* o) { StepFlag<Op>(s, nullptr, o); } };

#define CAT2(a, b, c, d) a##_##b##_##c##_##d
#define CAT(a, b, c, d) CAT2(a, b, c, d)
#define DEF(T, OP) extern "C" void CAT(step, VP_PFX, T, OP)(std::uint64_t s, std::uint64_t a, std::uint64_t b, std::uint64_t* o) { Sel<T, OP>::Go(s, a, b, o); }
C19_ALL(DEF)
