// C11_kernel.cpp -- Tier K: the real WaitRange (wait_impl.hpp) + MultiEvent/AtomicCounter/CallCallback (wait_event.hpp,
// atomic_counter.hpp) + the real callback word (base_core.cpp) under EVERY interleaving of a timed waiter with two producers.
// Only the OS event is a stub: Wait(token) blocks (assume), the timed Wait returns at an arbitrary moment with the current
// readiness (= the deadline may fall anywhere), Set records the signal.  All objects are static (link-time addresses).
#include <yaclib/async/detail/wait_impl.hpp>
#include "vp.h"
#include <atomic>
#include <new>
using namespace yaclib;
using namespace yaclib::detail;

struct KCore final : BaseCore {
  KCore() noexcept : BaseCore{kEmpty} {}
  InlineCore* Here(InlineCore&) noexcept final { return nullptr; }
  InlineCore* SetResult() noexcept { return SetResultImpl<false, false>(); }
  bool Ready() const noexcept { return !Empty(); }
};
static unsigned g_returned, g_set_after_return, g_sets;
struct KEvent {
  struct Token {};
  Token Make() noexcept { return {}; }
  // readiness is published/observed with release/acquire: the real MutexEvent does both under its mutex
  void Wait(Token&) noexcept { vp_assume(ready.load(std::memory_order_acquire)); }                       // blocks until signalled
  template <typename T> bool Wait(Token&, const T&) noexcept { return ready.load(std::memory_order_acquire); }  // deadline may pass at any moment
  void Set() noexcept { ++g_sets; if (g_returned) g_set_after_return = 1; ready.store(true, std::memory_order_release); }
  void Reset() noexcept { ready.store(false, std::memory_order_relaxed); }
  std::atomic<bool> ready{false};
};
struct Timeout {};
using Event = MultiEvent<KEvent, AtomicCounter, CallCallback>;

alignas(16) static unsigned char vp_obj_c0[sizeof(KCore)], vp_obj_c1[sizeof(KCore)], vp_obj_ev[sizeof(Event)];
#define C0 (*reinterpret_cast<KCore*>(vp_obj_c0))
#define C1 (*reinterpret_cast<KCore*>(vp_obj_c1))
#define EV (*reinterpret_cast<Event*>(vp_obj_ev))
static unsigned g_result = 2, g_ready0, g_ready1, g_count_at_return;

extern "C" void c11k_prologue() {
  new (vp_obj_c0) KCore{};
  new (vp_obj_c1) KCore{};
  new (vp_obj_ev) Event{std::size_t{3}};   // WaitCore: FinalEvent event{sizeof...(handles) + 1}
}
extern "C" void c11k_producer0() { vp_hb_write(0); Loop(&C0, C0.SetResult()); }
extern "C" void c11k_producer1() { vp_hb_write(1); Loop(&C1, C1.SetResult()); }
extern "C" void c11k_producer01() { vp_hb_write(0); Loop(&C0, C0.SetResult()); vp_hb_write(1); Loop(&C1, C1.SetResult()); }
static bool WaitBoth(bool timed) {
  UniqueHandle h0{C0}, h1{C1};
  auto range = [&](auto&& func) noexcept { return static_cast<std::size_t>(func(h0)) + static_cast<std::size_t>(func(h1)); };
  if (timed) return WaitRange(EV, Timeout{}, range, 2);
  return WaitRange(EV, NoTimeoutTag{}, range, 2);
}
static void Returned(bool r) {
  g_result = r;
  if (r) { vp_hb_read(0); vp_hb_read(1); }   // C04: after a successful wait the Results are read
  g_ready0 = C0.Ready(); g_ready1 = C1.Ready();
  g_count_at_return = (unsigned)EV.count.load(std::memory_order_relaxed);
  g_returned = 1;   // from here on the real WaitCore's stack frame (the event) is gone
}
extern "C" void c11k_waiter_timed() { Returned(WaitBoth(true)); }
extern "C" void c11k_waiter() { Returned(WaitBoth(false)); }
extern "C" void c11k_epilogue() {
  vp_assert(g_returned == 1, "harness: waiter did not return");
  if (g_result == 1) vp_assert(g_ready0 && g_ready1, "C11 Wait/WaitFor reported success but a listed future is not Ready");
  vp_assert(g_set_after_return == 0, "C11 a completion signalled the waiter's event after the wait had returned");
  vp_assert((unsigned)EV.count.load(std::memory_order_relaxed) == g_count_at_return, "C11 a completion touched the waiter's event counter after the wait had returned");
  vp_assert(g_sets <= 1, "C11 the waiter's event was signalled more than once");
  vp_assert(C0.Ready() && C1.Ready(), "harness: a producer did not finish");
  if (g_result == 0) vp_reach("c11k timed out"); else vp_reach("c11k success");
}
