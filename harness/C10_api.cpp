// C10_api.cpp -- WhenAny (C10) and WhenAll/Join (C09) over the real combinator code, as units of a sequentialised schedule
// (Tier A): building the combinator / completing input 1 / completing input 2, one unit running to completion inside
// another at any of its atomic operations.  Outcome kinds are per-query constants, payloads symbolic.
#include <yaclib/async/contract.hpp>
#include <yaclib/async/shared_contract.hpp>
#include <yaclib/async/shared_future.hpp>
#include <yaclib/async/future.hpp>
#include <yaclib/async/join.hpp>
#include <yaclib/async/make.hpp>
#include <yaclib/async/promise.hpp>
#include <yaclib/async/when_all.hpp>
#include <yaclib/async/when_any.hpp>
#include "vp.h"
#include <new>
using namespace yaclib;

alignas(16) static unsigned char g_fb[2][sizeof(Future<int>)], g_pb[2][sizeof(Promise<int>)];
#define FU(i) (*reinterpret_cast<Future<int>*>(g_fb[i]))
#define PR(i) (*reinterpret_cast<Promise<int>*>(g_pb[i]))
static int g_v[2];
static unsigned g_kind[2];          // 0 value, 1 error (StopError), 2 exception
static unsigned g_started[2], g_clock, g_done[2];
static unsigned g_scen;             // which units race (the others run in the prologue / epilogue)
static unsigned g_exact;            // 1: units ran strictly one after the other (first/last are well defined by start order)
static unsigned g_final_n, g_final_state; static int g_final_value; static int g_final_exc = -1;
static unsigned g_all_n, g_all_state, g_all_size, g_started_at_final; static int g_all_v[2];

static void Set(unsigned i) {
  g_started[i] = ++g_clock;
  switch (g_kind[i]) {
    case 0: std::move(PR(i)).Set(g_v[i]); break;
    case 1: std::move(PR(i)).Set(StopTag{}); break;
    default: {
      std::exception_ptr e;
      try { throw g_v[i]; } catch (...) { e = std::current_exception(); }
      std::move(PR(i)).Set(std::move(e));
    } break;
  }
  g_done[i] = 1;
}
static int ExcPayload(const std::exception_ptr& e) {
  try { std::rethrow_exception(e); } catch (int v) { return v; } catch (...) { return -2; }
}
struct FinalAny {
  void operator()(Result<int>&& r) noexcept {
    ++g_final_n; g_final_state = (unsigned)r.State();
    if (r.State() == ResultState::Value) g_final_value = std::as_const(r).Value();
    if (r.State() == ResultState::Exception) g_final_exc = ExcPayload(std::as_const(r).Exception());
  }
};
struct FinalAll {
  void operator()(Result<std::vector<int>>&& r) noexcept {
    ++g_all_n; g_all_state = (unsigned)r.State(); g_started_at_final = (g_started[0] != 0) + (g_started[1] != 0);
    if (r.State() == ResultState::Value) { auto& v = std::as_const(r).Value(); g_all_size = v.size(); for (unsigned i = 0; i < 2 && i < v.size(); ++i) g_all_v[i] = v[i]; }
    if (r.State() == ResultState::Exception) g_final_exc = ExcPayload(std::as_const(r).Exception());
  }
};
struct FinalAllNone {
  void operator()(Result<std::vector<Result<int>>>&& r) noexcept {
    ++g_all_n; g_all_state = (unsigned)r.State(); g_started_at_final = (g_started[0] != 0) + (g_started[1] != 0);
    if (r.State() == ResultState::Value) {
      auto& v = std::as_const(r).Value(); g_all_size = v.size();
      for (unsigned i = 0; i < 2 && i < v.size(); ++i) { g_all_v[i] = v[i].State() == ResultState::Value ? v[i].Value() : -1 - (int)v[i].State(); }
    }
  }
};
struct FinalJoin {
  void operator()(Result<void>&& r) noexcept {
    ++g_all_n; g_all_state = (unsigned)r.State(); g_started_at_final = (g_started[0] != 0) + (g_started[1] != 0);
    if (r.State() == ResultState::Exception) g_final_exc = ExcPayload(std::as_const(r).Exception());
  }
};

template <int Comb, FailPolicy P, bool Dyn>
static void Build() {
  auto make = [](auto&&... fs) {
    if constexpr (Comb == 0) return WhenAny<P>(std::forward<decltype(fs)>(fs)...);
    else if constexpr (Comb == 1) return WhenAll<P>(std::forward<decltype(fs)>(fs)...);
    else return Join<P>(std::forward<decltype(fs)>(fs)...);
  };
  auto attach = [](auto&& out) {
    if constexpr (Comb == 0) std::move(out).DetachInline(FinalAny{});
    else if constexpr (Comb == 1 && P == FailPolicy::None) std::move(out).DetachInline(FinalAllNone{});
    else if constexpr (Comb == 1) std::move(out).DetachInline(FinalAll{});
    else std::move(out).DetachInline(FinalJoin{});
  };
  if constexpr (Dyn) {
    Future<int> fs[2] = {std::move(FU(0)), std::move(FU(1))};
    attach(make(static_cast<Future<int>*>(fs), std::size_t{2}));
  } else {
    attach(make(std::move(FU(0)), std::move(FU(1))));
  }
}
#define BUILD(name, C, P, D) extern "C" void c10_build_##name() { Build<C, FailPolicy::P, D>(); }
BUILD(any_none_s, 0, None, false) BUILD(any_first_s, 0, FirstFail, false) BUILD(any_last_s, 0, LastFail, false)
BUILD(any_none_d, 0, None, true) BUILD(any_first_d, 0, FirstFail, true) BUILD(any_last_d, 0, LastFail, true)
BUILD(all_none_s, 1, None, false) BUILD(all_first_s, 1, FirstFail, false) BUILD(all_none_d, 1, None, true) BUILD(all_first_d, 1, FirstFail, true)
BUILD(join_none_s, 2, None, false) BUILD(join_first_s, 2, FirstFail, false) BUILD(join_first_d, 2, FirstFail, true)
extern "C" void c10_set0() { Set(0); }
extern "C" void c10_set1() { Set(1); }

extern "C" void c10_prologue(unsigned k0, unsigned k1, unsigned exact) {
  for (int i = 0; i < 2; ++i) {
    auto [f, p] = MakeContract<int>();
    new (g_fb[i]) Future<int>{std::move(f)};
    new (g_pb[i]) Promise<int>{std::move(p)};
    g_v[i] = (int)vp_nondet_u32();
  }
  g_kind[0] = k0; g_kind[1] = k1; g_exact = exact;
}
static bool Matches(unsigned i) {  // does the final Any outcome equal input i's outcome?
  if (g_kind[i] == 0) return g_final_state == (unsigned)ResultState::Value && g_final_value == g_v[i];
  if (g_kind[i] == 1) return g_final_state == (unsigned)ResultState::Error;
  return g_final_state == (unsigned)ResultState::Exception && g_final_exc == g_v[i];
}
static unsigned First() { return g_started[0] < g_started[1] ? 0 : 1; }
static void Common() {
  vp_assert(g_done[0] && g_done[1], "harness: an input was never completed");
  vp_assert(vp_live_count() == 0, "C03 an input core, the combinator or the output is still alive at quiescence (input not released exactly once)");
}
// policy: 0 None, 1 FirstFail, 2 LastFail
extern "C" void c10_epilogue_any(unsigned policy) {
  Common();
  vp_assert(g_final_n == 1, "C10 WhenAny output delivered exactly once (later completions must have no effect)");
  vp_assert(Matches(0) || Matches(1), "C10 WhenAny output is not the outcome of one of its inputs");
  bool any_value = g_kind[0] == 0 || g_kind[1] == 0;
  if (policy != 0 && any_value) vp_assert(g_final_state == (unsigned)ResultState::Value, "C10 WhenAny<FirstFail|LastFail>: a value arrived but the output is a failure");
  if (g_exact) {
    unsigned f = First(), l = 1 - f;
    if (policy == 0) vp_assert(Matches(f), "C10 WhenAny<None> must carry whatever completed first");
    else if (any_value) vp_assert(Matches(g_kind[f] == 0 ? f : l), "C10 WhenAny must carry the first value to arrive");
    else if (policy == 1) vp_assert(Matches(f), "C10 WhenAny<FirstFail> with no value must carry the first failure");
    else vp_assert(Matches(l), "C10 WhenAny<LastFail> with no value must carry the failure of the input that completed last");
  }
  vp_reach("c10 any epilogue");
}
extern "C" void c10_epilogue_all(unsigned policy) {  // WhenAll: 0 None (vector<Result>), 1 FirstFail (vector<int>)
  Common();
  vp_assert(g_all_n == 1, "C09 WhenAll output delivered exactly once");
  bool any_fail = g_kind[0] != 0 || g_kind[1] != 0;
  if (policy == 0 || !any_fail) {
    vp_assert(g_all_state == (unsigned)ResultState::Value && g_all_size == 2, "C09 WhenAll must succeed with one entry per input");
    for (unsigned i = 0; i < 2; ++i) {
      int want = g_kind[i] == 0 ? g_v[i] : -1 - (int)(g_kind[i] == 1 ? ResultState::Error : ResultState::Exception);
      vp_assert(g_all_v[i] == want, "C09 WhenAll entry i is not input i's value/Result (input order must be kept for every completion order)");
    }
    vp_assert(g_started_at_final == 2, "C09 WhenAll completed before its last input completed");
  } else {
    bool m0 = g_kind[0] == 1 ? g_all_state == (unsigned)ResultState::Error : g_kind[0] == 2 && g_all_state == (unsigned)ResultState::Exception && g_final_exc == g_v[0];
    bool m1 = g_kind[1] == 1 ? g_all_state == (unsigned)ResultState::Error : g_kind[1] == 2 && g_all_state == (unsigned)ResultState::Exception && g_final_exc == g_v[1];
    vp_assert(m0 || m1, "C09 WhenAll<FirstFail> must carry the error/exception of a failed input");
    if (g_exact) {
      unsigned f = First(); unsigned ff = g_kind[f] != 0 ? f : 1 - f;
      vp_assert(ff == 0 ? m0 : m1, "C09 WhenAll<FirstFail> must carry the FIRST failure");
    }
  }
  vp_reach("c10 all epilogue");
}
extern "C" void c10_epilogue_join(unsigned policy) {
  Common();
  vp_assert(g_all_n == 1, "C09 Join output delivered exactly once");
  bool any_fail = g_kind[0] != 0 || g_kind[1] != 0;
  if (policy == 0 || !any_fail) {
    vp_assert(g_all_state == (unsigned)ResultState::Value, "C09 Join must succeed");
    vp_assert(g_started_at_final == 2, "C09 Join completed before its last input completed");
  } else {
    bool m0 = g_kind[0] == 1 ? g_all_state == (unsigned)ResultState::Error : g_kind[0] == 2 && g_all_state == (unsigned)ResultState::Exception && g_final_exc == g_v[0];
    bool m1 = g_kind[1] == 1 ? g_all_state == (unsigned)ResultState::Error : g_kind[1] == 2 && g_all_state == (unsigned)ResultState::Exception && g_final_exc == g_v[1];
    vp_assert(m0 || m1, "C09 Join<FirstFail> must carry the error/exception of a failed input");
  }
  vp_reach("c10 join epilogue");
}
// empty input set -> invalid future (C09), count==1 shortcut (C10)
extern "C" void c10_empty_and_single() {
  std::vector<Future<int>> none;
  auto a = WhenAll(none.begin(), none.end());
  vp_assert(!a.Valid(), "C09 WhenAll of an empty range must yield an invalid future");
  auto j = Join(none.begin(), none.end());
  vp_assert(!j.Valid(), "C09 Join of an empty range must yield an invalid future");
  auto y = WhenAny(none.begin(), none.end());
  vp_assert(!y.Valid(), "C10 WhenAny of an empty range must yield an invalid future");
  int v = (int)vp_nondet_u32();
  Future<int> one[1] = {MakeFuture<int>(v)};
  auto o = WhenAny(static_cast<Future<int>*>(one), std::size_t{1});
  vp_assert(o.Valid() && o.Ready() && std::as_const(o).Touch().Value() == v, "C10 WhenAny of one future is that future");
  vp_reach("c10 empty/single");
}

// ---- AllTuple (heterogeneous inputs -> std::tuple): sequential completion orders, both policies
static unsigned g_t_n, g_t_state; static int g_t_exc = -1; static int g_t0; static unsigned g_t1; static unsigned g_ts0, g_ts1;
template <FailPolicy Pol>
static void Tuple(unsigned k0, unsigned k1, unsigned order) {
  auto [f0, p0] = MakeContract<int>();
  auto [f1, p1] = MakeContract<unsigned>();
  int v0 = (int)vp_nondet_u32(); unsigned v1 = vp_nondet_u32();
  auto set0 = [&, p = &p0] { if (k0 == 0) std::move(*p).Set(v0); else if (k0 == 1) std::move(*p).Set(StopTag{}); else { std::exception_ptr e; try { throw v0; } catch (...) { e = std::current_exception(); } std::move(*p).Set(std::move(e)); } };
  auto set1 = [&, p = &p1] { if (k1 == 0) std::move(*p).Set(v1); else if (k1 == 1) std::move(*p).Set(StopTag{}); else { std::exception_ptr e; try { throw (int)v1; } catch (...) { e = std::current_exception(); } std::move(*p).Set(std::move(e)); } };
  if (order == 2) { set0(); }            // input 0 completes before the combinator is built
  auto out = WhenAll<Pol>(std::move(f0), std::move(f1));
  if constexpr (Pol == FailPolicy::FirstFail) {
    std::move(out).DetachInline([](Result<std::tuple<int, unsigned>>&& r) noexcept {
      ++g_t_n; g_t_state = (unsigned)r.State();
      if (r.State() == ResultState::Value) { g_t0 = std::get<0>(std::as_const(r).Value()); g_t1 = std::get<1>(std::as_const(r).Value()); }
      if (r.State() == ResultState::Exception) g_t_exc = ExcPayload(std::as_const(r).Exception());
    });
  } else {
    std::move(out).DetachInline([](Result<std::tuple<Result<int>, Result<unsigned>>>&& r) noexcept {
      ++g_t_n; g_t_state = (unsigned)r.State();
      if (r.State() == ResultState::Value) {
        auto& t = std::as_const(r).Value();
        g_ts0 = (unsigned)std::get<0>(t).State(); g_ts1 = (unsigned)std::get<1>(t).State();
        if (std::get<0>(t).State() == ResultState::Value) g_t0 = std::get<0>(t).Value();
        if (std::get<1>(t).State() == ResultState::Value) g_t1 = std::get<1>(t).Value();
      }
    });
  }
  if (order == 0) { set0(); set1(); } else if (order == 1) { set1(); set0(); } else { set1(); }
  vp_assert(g_t_n == 1, "C09 WhenAll (tuple form) output delivered exactly once");
  bool any_fail = k0 != 0 || k1 != 0;
  auto st = [](unsigned k) { return (unsigned)(k == 0 ? ResultState::Value : k == 1 ? ResultState::Error : ResultState::Exception); };
  if (Pol == FailPolicy::None) {
    vp_assert(g_t_state == (unsigned)ResultState::Value && g_ts0 == st(k0) && g_ts1 == st(k1), "C09 WhenAll<None> (tuple form) must carry every input's Result at its index");
    if (k0 == 0) vp_assert(g_t0 == v0, "C09 tuple entry 0 is not input 0's value");
    if (k1 == 0) vp_assert(g_t1 == v1, "C09 tuple entry 1 is not input 1's value");
  } else if (!any_fail) {
    vp_assert(g_t_state == (unsigned)ResultState::Value && g_t0 == v0 && g_t1 == v1, "C09 WhenAll (tuple form) must carry input i's value at index i");
  } else {
    unsigned first_failed = (order == 1) ? (k1 != 0 ? 1 : 0) : (k0 != 0 ? 0 : 1);
    unsigned kf = first_failed == 0 ? k0 : k1; int vf = first_failed == 0 ? v0 : (int)v1;
    vp_assert(g_t_state == st(kf), "C09 WhenAll<FirstFail> (tuple form) must carry the first failure");
    if (kf == 2) vp_assert(g_t_exc == vf, "C09 WhenAll<FirstFail> (tuple form) carries a different exception than the first failed input's");
  }
  vp_assert(vp_live_count() == 0, "C03 an input core, the combinator or the output is still alive at quiescence (tuple form)");
  vp_reach("c09 tuple");
}
extern "C" void c09_tuple_first(unsigned k0, unsigned k1, unsigned order) { Tuple<FailPolicy::FirstFail>(k0, k1, order); }
extern "C" void c09_tuple_none(unsigned k0, unsigned k1, unsigned order) { Tuple<FailPolicy::None>(k0, k1, order); }

// ---- C09: shared inputs.  The combinator may CONSUME only its own reference to an input: a SharedFuture that is given twice, or
// is still observed elsewhere, keeps its value (the value type's move leaves a visible mark in the source).
struct MV {
  int v = 0;
  MV() = default;
  explicit MV(int x) : v{x} {}
  MV(const MV&) = default;
  MV& operator=(const MV&) = default;
  MV(MV&& o) noexcept : v{o.v} { o.v = -7; }
  MV& operator=(MV&& o) noexcept { v = o.v; o.v = -7; return *this; }
};
static int g_sh_out[3]; static unsigned g_sh_n, g_sh_calls;
struct FinalShared { void operator()(Result<std::vector<MV>>&& r) noexcept {
  ++g_sh_calls;
  if (!r) return;
  auto& vec = std::as_const(r).Value();
  g_sh_n = (unsigned)vec.size();
  for (unsigned i = 0; i < 3 && i < vec.size(); ++i) g_sh_out[i] = vec[i].v;
} };
extern "C" void c09_shared_inputs(unsigned form) {
  int a = (int)vp_nondet_u32(), b = (int)vp_nondet_u32();
  vp_assume(a != -7 && b != -7);
  if (form == 0) {          // static form, the same shared state given twice
    auto [sf, sp] = MakeSharedContract<MV>();
    WhenAll(sf, sf).DetachInline(FinalShared{});
    std::move(sp).Set(MV{a});
    vp_assert(g_sh_calls == 1 && g_sh_n == 2 && g_sh_out[0] == a && g_sh_out[1] == a, "C09 WhenAll over shared inputs: entry i must be the value of input i (a shared input given twice)");
    vp_assert(std::as_const(sf).Touch().Value().v == a, "C09 WhenAll consumed a shared input that is still observed elsewhere");
  } else if (form == 1) {   // dynamic form, completion order reversed, inputs observed afterwards
    auto [sf1, sp1] = MakeSharedContract<MV>();
    auto [sf2, sp2] = MakeSharedContract<MV>();
    SharedFuture<MV> in[3] = {sf1, sf2, sf1};
    WhenAll(in, 3).DetachInline(FinalShared{});
    std::move(sp2).Set(MV{b});
    std::move(sp1).Set(MV{a});
    vp_assert(g_sh_calls == 1 && g_sh_n == 3 && g_sh_out[0] == a && g_sh_out[1] == b && g_sh_out[2] == a, "C09 WhenAll over shared inputs: entry i must be the value of input i (dynamic form)");
    vp_assert(std::as_const(sf1).Touch().Value().v == a && std::as_const(sf2).Touch().Value().v == b, "C09 WhenAll consumed a shared input that is still observed elsewhere");
  } else {                  // mixed unique/shared static form; the shared input feeds a second WhenAll
    auto [f, p] = MakeContract<MV>();
    auto [sf, sp] = MakeSharedContract<MV>();
    WhenAll(std::move(f), sf).DetachInline(FinalShared{});
    std::move(sp).Set(MV{b});
    std::move(p).Set(MV{a});
    vp_assert(g_sh_calls == 1 && g_sh_n == 2 && g_sh_out[0] == a && g_sh_out[1] == b, "C09 WhenAll over mixed unique/shared inputs: entry i must be the value of input i");
    vp_assert(std::as_const(sf).Touch().Value().v == b, "C09 WhenAll consumed a shared input that is still observed elsewhere");
  }
  vp_reach("c09 shared inputs");
}

// ---- C20: WhenAll / WhenAny / Join on plain futures allocate a number of blocks that does not depend on the number of inputs
template <int Comb, std::size_t N>
static unsigned long CombAllocs() {
  Future<int> fs[N]; Promise<int> ps[N];
  for (std::size_t i = 0; i < N; ++i) { auto [f, p] = MakeContract<int>(); fs[i] = std::move(f); ps[i] = std::move(p); }
  unsigned long a0 = vp_alloc_count();
  if constexpr (Comb == 0) WhenAny(static_cast<Future<int>*>(fs), N).DetachInline([](Result<int>&&) noexcept {});
  else if constexpr (Comb == 1) WhenAll(static_cast<Future<int>*>(fs), N).DetachInline([](Result<std::vector<int>>&&) noexcept {});
  else Join(static_cast<Future<int>*>(fs), N).DetachInline([](Result<>&&) noexcept {});
  for (std::size_t i = 0; i < N; ++i) std::move(ps[i]).Set((int)i);
  unsigned long n = vp_alloc_count() - a0;
  if constexpr (Comb == 0) vp_assert(vp_live_count() == 0, "C03 something is still alive after WhenAny completed and every input was set");
  else if constexpr (Comb == 1) vp_assert(vp_live_count() == 0, "C03 something is still alive after WhenAll completed");
  else vp_assert(vp_live_count() == 0, "C03 something is still alive after Join completed");
  return n;
}
extern "C" void c20_when_allocs(unsigned comb) {   // one combinator per query: the bump arenas of the encoding are small
  unsigned long a2 = 0, a3 = 0;
  if (comb == 0) { a2 = CombAllocs<0, 2>(); a3 = CombAllocs<0, 3>(); }
  else if (comb == 1) { a2 = CombAllocs<1, 2>(); a3 = CombAllocs<1, 3>(); }
  else { a2 = CombAllocs<2, 2>(); a3 = CombAllocs<2, 3>(); }
  vp_assert(a2 == a3 && a2 <= 5, "C20 a combinator over plain futures (dynamic form) allocates a number of blocks that depends on the number of inputs");
  vp_reach("c20 when allocs");
}

// ---- three inputs, sequential completion orders (WhenAny static form): value -> failure -> value patterns need n >= 3
template <FailPolicy P>
static void Any3(unsigned k0, unsigned k1, unsigned k2, unsigned order) {
  unsigned kind[3] = {k0, k1, k2};
  int v[3];
  Promise<int> pr[3];
  Future<int> fu[3];
  for (int i = 0; i < 3; ++i) { auto [f, p] = MakeContract<int>(); fu[i] = std::move(f); pr[i] = std::move(p); v[i] = (int)vp_nondet_u32(); }
  WhenAny<P>(std::move(fu[0]), std::move(fu[1]), std::move(fu[2])).DetachInline(FinalAny{});
  static const unsigned char perm[6][3] = {{0, 1, 2}, {0, 2, 1}, {1, 0, 2}, {1, 2, 0}, {2, 0, 1}, {2, 1, 0}};
  for (int s = 0; s < 3; ++s) {
    unsigned i = perm[order][s];
    if (kind[i] == 0) std::move(pr[i]).Set(v[i]);
    else if (kind[i] == 1) std::move(pr[i]).Set(StopTag{});
    else { std::exception_ptr e; try { throw v[i]; } catch (...) { e = std::current_exception(); } std::move(pr[i]).Set(std::move(e)); }
  }
  auto matches = [&](unsigned i) {
    if (kind[i] == 0) return g_final_state == (unsigned)ResultState::Value && g_final_value == v[i];
    if (kind[i] == 1) return g_final_state == (unsigned)ResultState::Error;
    return g_final_state == (unsigned)ResultState::Exception && g_final_exc == v[i];
  };
  vp_assert(g_final_n == 1, "C10 WhenAny (3 inputs) output delivered exactly once (later completions must have no effect)");
  int first_value = -1, first_fail = -1, last_fail = -1;
  for (int s = 0; s < 3; ++s) { unsigned i = perm[order][s]; if (kind[i] == 0) { if (first_value < 0) first_value = (int)i; } else { if (first_fail < 0) first_fail = (int)i; last_fail = (int)i; } }
  unsigned want = P == FailPolicy::None ? perm[order][0] : first_value >= 0 ? (unsigned)first_value : P == FailPolicy::FirstFail ? (unsigned)first_fail : (unsigned)last_fail;
  vp_assert(matches(want), "C10 WhenAny (3 inputs) carries the wrong winner for its fail policy");
  vp_assert(vp_live_count() == 0, "C03 an input core, the combinator or the output is still alive at quiescence (3 inputs)");
  vp_reach("c10 any3");
}
extern "C" void c10_any3_none(unsigned a, unsigned b, unsigned c, unsigned o) { Any3<FailPolicy::None>(a, b, c, o); }
extern "C" void c10_any3_first(unsigned a, unsigned b, unsigned c, unsigned o) { Any3<FailPolicy::FirstFail>(a, b, c, o); }
extern "C" void c10_any3_last(unsigned a, unsigned b, unsigned c, unsigned o) { Any3<FailPolicy::LastFail>(a, b, c, o); }
