// C16_kernel.cpp -- Tier K: real OneShotEvent (src/algo/one_shot_event.cpp) and the WaitGroup counter+event
// (MultiEvent<OneShotEvent, AtomicCounter, CallCallback, DropCallback> = WaitGroup::_event) under EVERY interleaving of
// Add/Done, waiter registration (TryAdd of a stub job = what Wait / co_await do) and the final Set.
#include <yaclib/algo/one_shot_event.hpp>
#include <yaclib/algo/detail/wait_event.hpp>
#include <yaclib/util/detail/atomic_counter.hpp>
#include <yaclib/util/detail/set_deleter.hpp>
#include "vp.h"
#include <new>
using namespace yaclib;
using namespace yaclib::detail;

struct KJob;
static bool CountIsZero();           // once the count is zero it stays zero (Add is only legal while it is non-zero)
struct KJob final : Job {
  void Call() noexcept final { ++calls; if (!CountIsZero()) early = 1; vp_hb_read(0); vp_hb_read(1); }   // C04: what the Done threads wrote before Done is read by the released waiter
  unsigned calls = 0, early = 0, added = 2;
};
using GroupEvent = MultiEvent<OneShotEvent, AtomicCounter, CallCallback, DropCallback>;

alignas(16) static unsigned char vp_obj_ev[sizeof(GroupEvent)], vp_obj_j0[sizeof(KJob)], vp_obj_j1[sizeof(KJob)];
#define EV (*reinterpret_cast<GroupEvent*>(vp_obj_ev))
#define J0 (*reinterpret_cast<KJob*>(vp_obj_j0))
#define J1 (*reinterpret_cast<KJob*>(vp_obj_j1))
static unsigned g_ready_seen[2], g_refused_early;
static bool CountIsZero() { return EV.count.load(std::memory_order_relaxed) == 0; }

extern "C" void c16k_prologue(unsigned count) {
  new (vp_obj_ev) GroupEvent{std::size_t{count}};
  new (vp_obj_j0) KJob{};
  new (vp_obj_j1) KJob{};
}
// WaitGroup::Done() = _event.Sub(1) -> SubEqual -> SetDeleter -> OneShotEvent::Set ; WaitGroup::Add(n) = _event.Add(n)
extern "C" void c16k_done() { vp_hb_write(0); EV.Sub(1); }
extern "C" void c16k_done_b() { vp_hb_write(1); EV.Sub(1); }
extern "C" void c16k_add_done_done() { EV.Add(1); EV.Sub(1); vp_hb_write(1); EV.Sub(1); }   // legal: Add while this thread still holds one
static void Register(KJob& j, unsigned i) {
  if (EV.Ready()) { g_ready_seen[i] = 1; if (!CountIsZero()) g_refused_early = 1; }   // what await_ready does
  j.added = EV.TryAdd(j);
  if (!j.added && !CountIsZero()) g_refused_early = 1;
}
extern "C" void c16k_waiter0() { Register(J0, 0); }
extern "C" void c16k_waiter1() { Register(J1, 1); }
static void CheckJob(KJob& j, unsigned i) {
  if (j.added == 2) { vp_assert(j.calls == 0, "C16 a job that never registered was called"); return; }  // not part of this scenario
  if (j.added == 1) vp_assert(j.calls == 1, "C16 a waiter registered before the count hit zero was not released exactly once");
  else vp_assert(j.calls == 0, "C16 a waiter that arrived after zero (TryAdd false) was called anyway");
  vp_assert(j.early == 0, "C16 a waiter was released before the count had reached zero");
  vp_assert(g_refused_early == 0, "C16 event reported Ready / refused a waiter before the count had reached zero");
}
extern "C" void c16k_epilogue() {
  vp_assert(EV.Ready(), "C16 count reached zero but the event is not set");
  vp_assert(EV.count.load(std::memory_order_relaxed) == 0, "harness: count not zero at quiescence");
  CheckJob(J0, 0); CheckJob(J1, 1);
  if (J0.added == 1 && J1.added == 0) vp_reach("c16k one before, one after zero");
  else if (J0.added == 1 && J1.added == 1) vp_reach("c16k both registered before zero");
  else vp_reach("c16k other");
}
