// C08_api.cpp -- the real FairThreadPool (src/runtime/fair_thread_pool.cpp, intrusive_list.cpp, the std::vector<std::thread> /
// unique_lock code clang instantiates) over MODELLED pthread mutex / condition_variable / std::thread (rt/vp_sync.c).
// Sequentialised schedule with three logical threads: worker (outer), submitter, stopper; the pending units run at enumerated
// schedule points (every mutex/condvar/thread operation is one) or when the running thread blocks.
#include <yaclib/runtime/fair_thread_pool.hpp>
#include "vp.h"
#include <new>
using namespace yaclib;
extern "C" void vp_thread_body(std::uint32_t n) noexcept;   // runs the body of the n-th started std::thread (rt/vp_sync.c)

alignas(16) static unsigned char g_tp_buf[sizeof(FairThreadPool)];
#define TP (*reinterpret_cast<FairThreadPool*>(g_tp_buf))
static unsigned g_clock, g_in_submit, g_after_wait, g_hard, g_bad_drop_place, g_call_after_wait, g_inside, g_overlap, g_drop_while_alive;
struct KJob final : Job {
  void Call() noexcept final {
    ++calls; start = ++g_clock;
    if (g_after_wait) g_call_after_wait = 1;
    if (++g_inside != 1) g_overlap = 1;   // one worker: jobs never overlap
    vp_sync_point();                      // the job body is a schedule point
    --g_inside;
  }
  void Drop() noexcept final {
    ++drops;
    if (!g_in_submit && !g_hard) g_bad_drop_place = 1;   // without HardStop a job may only be dropped by the Submit that is refused
    dropped_in_submit = g_in_submit != 0;
  }
  unsigned calls = 0, drops = 0, start = 0; bool dropped_in_submit = false, submitted = false;
};
static KJob g_job[2];
// a job that hands its outcome to a continuation, which is submitted to the SAME pool (what Future::Then(pool, f) chains do)
struct ReJob final : Job {
  void Call() noexcept final { ++calls; Next(); }
  void Drop() noexcept final { ++drops; Next(); }
  void Next() noexcept { g_job[1].submitted = true; unsigned was = g_in_submit; g_in_submit = 1; reinterpret_cast<FairThreadPool*>(pool)->Submit(g_job[1]); g_in_submit = was; }
  unsigned calls = 0, drops = 0; void* pool = nullptr;
};
static ReJob g_rejob;
static bool g_resubmit;
extern "C" void c08_prologue() { new (g_tp_buf) FairThreadPool{1}; }
extern "C" void c08_worker() { vp_thread_body(0); }
static void SubmitOne(unsigned i) { g_job[i].submitted = true; g_in_submit = 1; TP.Submit(g_job[i]); g_in_submit = 0; }
extern "C" void c08_submitter() { SubmitOne(0); SubmitOne(1); }
extern "C" void c08_resubmitter() { g_resubmit = true; g_rejob.pool = g_tp_buf; g_in_submit = 1; TP.Submit(g_rejob); g_in_submit = 0; }
extern "C" void c08_stop() { TP.Stop(); }
extern "C" void c08_softstop() { TP.SoftStop(); }
extern "C" void c08_hardstop() { g_hard = 1; TP.HardStop(); }
// kind: 0 Stop, 1 SoftStop (retried once after everything else ran, as SoftStop is a request that only takes effect when idle), 2 HardStop
extern "C" void c08_epilogue(unsigned kind) {
  if (kind == 1) TP.SoftStop();
  TP.Wait();
  g_after_wait = 1;
  vp_assert(!TP.Alive(), "C08 pool still alive after Stop + Wait");
  if (g_resubmit) vp_assert(g_rejob.calls + g_rejob.drops == 1, "C08 a job was neither Called nor Dropped exactly once");
  for (unsigned i = g_resubmit ? 1 : 0; i < 2; ++i) {
    vp_assert(g_job[i].submitted, "harness: job never submitted");
    vp_assert(g_job[i].calls + g_job[i].drops == 1, "C08 a job was neither Called nor Dropped exactly once");
  }
  vp_assert(g_bad_drop_place == 0, "C08 an accepted job was Dropped although HardStop was not used (Stop/SoftStop must run everything accepted)");
  vp_assert(g_call_after_wait == 0 && g_inside == 0, "C08 a job runs after Wait returned");
  vp_assert(g_overlap == 0, "C08 two jobs overlapped on a single worker");
  if (g_job[0].calls && g_job[1].calls) vp_assert(g_job[0].start < g_job[1].start, "C08 single worker: jobs must start in submission order");
  if (kind == 1 && !g_resubmit) vp_assert(g_job[0].calls + g_job[1].calls + (unsigned)g_job[0].dropped_in_submit + (unsigned)g_job[1].dropped_in_submit == 2, "C08 SoftStop dropped an accepted job");
  if (kind == 1 && g_resubmit) vp_assert(g_job[1].calls + (unsigned)g_job[1].dropped_in_submit == 1, "C08 SoftStop dropped an accepted job");
  TP.~FairThreadPool();
  vp_assert(vp_live_count() == 0, "C03 the pool left something allocated (thread state / vector storage)");
  if (g_resubmit) vp_reach("c08 resubmit scenario"); else if (g_job[0].calls && g_job[1].calls) vp_reach("c08 both jobs ran"); else if (g_job[0].drops && g_job[1].drops) vp_reach("c08 both jobs dropped"); else vp_reach("c08 mixed");
}
