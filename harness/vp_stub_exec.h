// vp_stub_exec.h -- instrumented stub executors for harnesses (environment model: an IExecutor honouring the contract).
#pragma once
#include <yaclib/exe/executor.hpp>
#include <yaclib/exe/job.hpp>
#include "vp.h"

namespace vp {
inline unsigned vp_cur_exec_id = 0;  // which stub executor is running a job right now (0 = none)

// Runs a submitted job inline, or (deferred mode) keeps it in a small mailbox until Drain(); refuses when stopped.
struct StubExec final : yaclib::IExecutor {
  Type Tag() const noexcept final { return Type::Custom; }
  bool Alive() const noexcept final { return !stopped; }
  void Submit(yaclib::Job& job) noexcept final {
    ++submits;
    if (stop_before == submits) stopped = true;
    if (stopped) { ++drops; Run(job, false); return; }
    if (!deferred) { Run(job, true); return; }
    vp_assert(n < 4, "VP-BOUND: stub executor mailbox full");
    vp_hb_sync_release(id);   // C04 ghost: a real executor's queue orders Submit before the job's execution
    box[n++] = &job;
  }
  void Run(yaclib::Job& job, bool call) noexcept {
    unsigned prev = vp_cur_exec_id;
    vp_cur_exec_id = id;
    if (call) job.Call(); else job.Drop();
    vp_cur_exec_id = prev;
  }
  void Drain() noexcept {
    for (unsigned i = 0; i < 4 && i < n; ++i) {  // jobs submitted while draining are appended and run too
      yaclib::Job* j = box[i];
      box[i] = nullptr;
      vp_hb_sync_acquire(id);
      Run(*j, true);
    }
    n = 0;
  }
  unsigned id = 1, submits = 0, drops = 0, n = 0, stop_before = 0;
  bool deferred = false, stopped = false;
  yaclib::Job* box[4] = {nullptr, nullptr, nullptr, nullptr};
};
}  // namespace vp
