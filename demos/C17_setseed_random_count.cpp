// native FIBER demo (YACLIB_FAULT=2): a (random count, injector state) pair recorded after an in-process re-run
// (SetSeed + SetInjectorState) does not restore to the recorded point in a new process, because SetSeed re-seeds the
// engine but keeps counting draws from the previous run.
//   build (see run line below), then:   ./demo record  -> prints "<count> <state> : <decisions of phase 2>"
//                                       ./demo restore <count> <state> -> prints the decisions of phase 2 after restoring
#include <yaclib/fault/config.hpp>
#include <yaclib/fault/inject.hpp>
namespace yaclib::detail { bool ShouldFailAtomicWeak(); }
#include <cstdio>
#include <cstdlib>
#include <cstring>
static void Phase(bool print) {
  for (int i = 0; i < 12; ++i) {
    auto before = yaclib::GetInjectedCount();
    yaclib::InjectFault();                                   // outside a fiber the injected yield returns at once
    bool yielded = yaclib::GetInjectedCount() != before;
    bool cas_fails = yaclib::detail::ShouldFailAtomicWeak();
    if (print) std::printf("%d%d", yielded, cas_fails);
  }
}
int main(int argc, char** argv) {
  yaclib::SetFaultFrequency(2);
  yaclib::SetAtomicFailFrequency(2);
  if (argc > 1 && !std::strcmp(argv[1], "record")) {
    yaclib::SetSeed(42);
    Phase(false);                                            // first run of the test
    yaclib::SetSeed(42);                                     // run it again in the same process: re-seed, reset the injector
    yaclib::fiber::SetInjectorState(0);
    Phase(false);
    std::printf("%llu %u : ", (unsigned long long)yaclib::fiber::GetFaultRandomCount(), yaclib::fiber::GetInjectorState());
    Phase(true);                                             // how the original continued from the recorded point
    std::printf("\n");
    return 0;
  }
  yaclib::SetSeed(42);                                       // a new process restored from the recorded pair
  yaclib::fiber::ForwardToFaultRandomCount(std::strtoull(argv[2], nullptr, 10));
  yaclib::fiber::SetInjectorState(std::atoi(argv[3]));
  Phase(true);
  std::printf("\n");
  return 0;
}
