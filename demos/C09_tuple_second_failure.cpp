#include <yaclib/async/contract.hpp>
#include <yaclib/async/when_all.hpp>
#include <cstdio>
int main() {
  auto [f0, p0] = yaclib::MakeContract<int>();
  auto [f1, p1] = yaclib::MakeContract<unsigned>();
  auto out = yaclib::WhenAll(std::move(f0), std::move(f1));   // FirstFail, tuple form
  std::move(p0).Set(yaclib::StopTag{});
  std::move(p1).Set(yaclib::StopTag{});                       // second failure
  std::printf("state=%d\n", (int)std::move(out).Get().State());
  return 0;
}
