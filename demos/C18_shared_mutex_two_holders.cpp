// native FIBER demo: shared_mutex::lock() does not re-check after being woken -> two exclusive holders
#include <yaclib/fault/detail/fiber/scheduler.hpp>
#include <yaclib/fault/config.hpp>
#include <yaclib_std/shared_mutex>
#include <yaclib_std/thread>
#include <cstdio>
namespace yaclib::detail { void SetSeed(std::uint32_t); }
int main() {
  int bad = 0, rounds = 0;
  for (unsigned seed = 1; seed <= 300 && !bad; ++seed) {
    yaclib::detail::SetSeed(seed);
    yaclib::fault::Scheduler scheduler;
    yaclib::fault::Scheduler::Set(&scheduler);
    yaclib_std::thread root([&] {
      yaclib_std::shared_mutex m;
      int inside = 0;
      m.lock();                                            // A holds
      yaclib_std::thread b([&] { m.lock(); if (++inside != 1) bad = 1; yaclib_std::this_thread::yield(); --inside; m.unlock(); });
      for (int i = 0; i < 20; ++i) yaclib_std::this_thread::yield();   // b parks
      yaclib_std::thread c([&] { for (int i = 0; i < 40; ++i) { if (m.try_lock()) { if (++inside != 1) bad = 1; for (int j = 0; j < 5; ++j) yaclib_std::this_thread::yield(); --inside; m.unlock(); break; } yaclib_std::this_thread::yield(); } });
      m.unlock();                                          // wakes b (runnable); c may barge in before b runs
      b.join(); c.join();
    });
    root.join();
    ++rounds;
  }
  std::printf("rounds=%d two exclusive holders observed=%d\n", rounds, bad);
  return bad ? 1 : 0;
}
