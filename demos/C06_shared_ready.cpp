#include <yaclib/async/shared_contract.hpp>
#include <yaclib/async/shared_future.hpp>
#include <yaclib/async/shared_promise.hpp>
#include <cstdio>
int main() {
  auto [sf, sp] = yaclib::MakeSharedContract<int>();
  std::printf("Ready before anything: %d\n", (int)sf.Ready());
  auto f = sf.ThenInline([](int x) { return x + 1; });   // another observer attaches a continuation
  bool ready = sf.Ready();
  std::printf("Ready after an observer attached, promise NOT set: %d\n", (int)ready);
  std::move(sp).Set(41);
  std::printf("Ready after Set: %d value %d\n", (int)sf.Ready(), sf.Touch().Value());
  return ready ? 1 : 0;
}
