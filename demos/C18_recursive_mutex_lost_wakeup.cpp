// native FIBER demo: a fiber blocked in recursive_mutex::lock() is never woken when the holder unlocks
#include <yaclib/fault/detail/fiber/scheduler.hpp>
#include <yaclib_std/mutex>
#include <yaclib_std/thread>
#include <cstdio>
int main() {
  yaclib::fault::Scheduler scheduler;
  yaclib::fault::Scheduler::Set(&scheduler);
  int got = 0;
  yaclib_std::thread root([&] {
    yaclib_std::recursive_mutex m;
    m.lock();
    yaclib_std::thread b([&] { m.lock(); got = 1; m.unlock(); });
    for (int i = 0; i < 50; ++i) yaclib_std::this_thread::yield();   // let b run until it blocks on m
    m.unlock();
    for (int i = 0; i < 200; ++i) yaclib_std::this_thread::yield();  // plenty of chances for b to be woken
    std::printf("b acquired the mutex after unlock: %d\n", got);
    std::fflush(stdout);
    if (!got) std::_Exit(1);
    b.join();
  });
  root.join();
  return 0;
}
