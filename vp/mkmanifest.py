#!/usr/bin/env python3
"""Regenerates MANIFEST.json from checks/*.py (each exposes MANIFEST = {...}) and NOT_APPLICABLE entries."""
import importlib, json, os, sys
HERE = os.path.dirname(os.path.abspath(__file__)); ROOT = os.path.dirname(HERE)
sys.path.insert(0, HERE); sys.path.insert(0, ROOT)
ALL = ['C%02d' % i for i in range(1, 21)]
checks, na = [], []
for pid in ALL:
    try:
        m = importlib.import_module('checks.' + pid)
    except ModuleNotFoundError:
        m = None
    if m is not None and getattr(m, 'MANIFEST', None):
        mf = m.MANIFEST
        checks.append({
            'property_id': pid,
            'quick_cmd': 'python3 vp/check.py %s --tier quick' % pid,
            'thorough_cmd': 'python3 vp/check.py %s --tier thorough' % pid,
            'evidence_file': '/verif/evidence/%s.json' % pid,
            'replay_cmd_template': 'cat {path}',
            'engine': 'ir2c+cbmc',
            'level_claimed': {'category': 'model_checking', 'text': mf['level_text'], 'design_ref': mf.get('design_ref', 'DESIGN.md 4')},
            'level_note': mf['level_note'],
            'technique': mf.get('technique', 'bounded symbolic model checking of the real code: clang LLVM IR -> ir2c -> CBMC/SAT'),
        })
    else:
        reason = getattr(m, 'NOT_APPLICABLE', None) if m else None
        na.append({'property_id': pid, 'reason': reason or 'no check built yet in this round (breadth-first build order, DESIGN.md 8); nothing is claimed'})
man = {
    'version': 1,
    'setup_cmd': 'python3 vp/setup_check.py',
    'hooks': {'guard': 'YACLIB_VERIF', 'enable': 'none needed: the checks compile /repo unmodified (no hook commits)',
              'baseline_off_cmd': 'ctest --test-dir /repo/_build -j8 --timeout 900', 'source_commits': [], 'add_only': True},
    'engines': [{'name': 'ir2c+cbmc', 'path': 'vp/', 'serves_properties': [c['property_id'] for c in checks],
                 'kind_free_text': 'clang++-14 -O1 LLVM IR of /repo working tree -> vp/ir2c.py (pointer-free C over a flat word memory) -> cbmc 6.11 (SAT); '
                                   'threads via CBMC partial-order encoding (Tier K) or solver-decided preemption cubes (Tier A)'}],
    'checks': checks,
    'not_applicable': na,
    'notes': 'Exit codes: 0 held within bounds; 1 VIOLATION (new finding); 2 inconclusive (no verdict: time-out, bound insufficient, unsupported IR) -- never reported as pass. Repairs of genuine defects: see known_findings.txt.',
}
json.dump(man, open(os.path.join(ROOT, 'MANIFEST.json'), 'w'), indent=1)
print('checks:', [c['property_id'] for c in checks], 'n/a:', len(na))
