#!/usr/bin/env python3
"""ir2c: LLVM-14 textual IR  ->  pointer-free C over a flat word memory (for CBMC and for native diff runs).

Every LLVM pointer becomes a uint64_t byte address into VP_MEM (owned by rt/vp_rt.c).  Nothing here knows
about YACLib: the translator is driven by the IR alone.  Anything it does not understand raises Unsupported
with the function name, and the caller reports the check as inconclusive.
"""
import re
import sys
import struct as pystruct


class Unsupported(Exception):
    pass


# ----------------------------------------------------------------------------------------------- tokens
TOK_RE = re.compile(r'''
    (?P<ws>\s+)
  | (?P<str>c?"(?:[^"\\]|\\.)*")
  | (?P<local>%(?:"[^"]*"|[-\w.$]+))
  | (?P<global>@(?:"[^"]*"|[-\w.$]+))
  | (?P<meta>![-\w.]*)
  | (?P<attrgrp>\#\d+)
  | (?P<comdat>\$(?:"[^"]*"|[-\w.$]+))
  | (?P<num>-?(?:0x[0-9A-Fa-f]+|0x[KLMHR][0-9A-Fa-f]+|\d+\.\d*(?:[eE][-+]?\d+)?|\d+))
  | (?P<dots>\.\.\.)
  | (?P<word>[A-Za-z_][\w.]*)
  | (?P<punct>[()\[\]{}<>,=*:|])
''', re.X)


def tokenize(s):
    out = []
    pos = 0
    n = len(s)
    while pos < n:
        if s[pos] == ';':
            break
        m = TOK_RE.match(s, pos)
        if not m:
            raise Unsupported('cannot tokenize: %r' % s[pos:pos + 40])
        pos = m.end()
        k = m.lastgroup
        if k == 'ws':
            continue
        out.append((k, m.group(k)))
    return out


# ----------------------------------------------------------------------------------------------- types
class T:
    __slots__ = ('k', 'a', 'b', 'c')

    def __init__(self, k, a=None, b=None, c=None):
        self.k, self.a, self.b, self.c = k, a, b, c

    def __repr__(self):
        return 'T(%s,%r,%r)' % (self.k, self.a, self.b)

    def key(self):
        if self.k == 'int':
            return 'i%d' % self.a
        if self.k in ('float', 'double', 'void', 'label', 'metadata', 'token', 'opaque'):
            return self.k
        if self.k == 'ptr':
            return 'p'
        if self.k == 'named':
            return 'N' + self.a
        if self.k == 'struct':
            return ('P{' if self.b else '{') + ','.join(t.key() for t in self.a) + '}'
        if self.k == 'array':
            return '[%d x %s]' % (self.a, self.b.key())
        if self.k == 'vec':
            return '<%d x %s>' % (self.a, self.b.key())
        if self.k == 'func':
            return 'F'
        return self.k


VOID = T('void')
I1 = T('int', 1)
I8 = T('int', 8)
I32 = T('int', 32)
I64 = T('int', 64)
PTR = T('ptr', I8)


class Cursor:
    def __init__(self, toks, mod=None):
        self.t = toks
        self.i = 0
        self.mod = mod

    def peek(self, off=0):
        j = self.i + off
        return self.t[j] if j < len(self.t) else (None, None)

    def next(self):
        x = self.t[self.i]
        self.i += 1
        return x

    def eof(self):
        return self.i >= len(self.t)

    def accept(self, val):
        if not self.eof() and self.t[self.i][1] == val:
            self.i += 1
            return True
        return False

    def expect(self, val):
        if not self.accept(val):
            raise Unsupported('expected %r got %r in %r' % (val, self.peek(), ' '.join(x[1] for x in self.t)[:200]))

    def rest(self):
        return ' '.join(x[1] for x in self.t[self.i:])


def parse_type(c):
    k, v = c.next()
    if k == 'word':
        if re.fullmatch(r'i\d+', v):
            t = T('int', int(v[1:]))
        elif v in ('float', 'double', 'void', 'label', 'metadata', 'token'):
            t = T(v)
        elif v == 'opaque':
            t = T('opaque')
        elif v == 'ptr':
            t = T('ptr', I8)
        elif v in ('x86_fp80', 'fp128', 'half', 'bfloat', 'ppc_fp128', 'x86_mmx'):
            t = T('unsup', v)
        else:
            raise Unsupported('type word %r' % v)
    elif k == 'local':
        t = T('named', v)
    elif v == '{':
        fields = []
        if not c.accept('}'):
            while True:
                fields.append(parse_type(c))
                if c.accept('}'):
                    break
                c.expect(',')
        t = T('struct', fields, False)
    elif v == '<':
        if c.peek()[1] == '{':
            c.next()
            fields = []
            if not c.accept('}'):
                while True:
                    fields.append(parse_type(c))
                    if c.accept('}'):
                        break
                    c.expect(',')
            c.expect('>')
            t = T('struct', fields, True)
        else:
            n = int(c.next()[1])
            c.expect('x')
            et = parse_type(c)
            c.expect('>')
            t = T('vec', n, et)
    elif v == '[':
        n = int(c.next()[1])
        c.expect('x')
        et = parse_type(c)
        c.expect(']')
        t = T('array', n, et)
    else:
        raise Unsupported('type token %r' % v)
    while True:
        pk, pv = c.peek()
        if pv == '*':
            c.next()
            t = T('ptr', t)
        elif pv == '(':
            c.next()
            args = []
            va = False
            if not c.accept(')'):
                while True:
                    if c.peek()[0] == 'dots':
                        c.next()
                        va = True
                    else:
                        args.append(parse_type(c))
                        skip_param_attrs(c)
                    if c.accept(')'):
                        break
                    c.expect(',')
            t = T('func', t, args, va)
        elif pk == 'word' and pv == 'addrspace':
            c.next(); c.expect('('); c.next(); c.expect(')')
        else:
            break
    return t


PARAM_ATTR_WORDS = {
    'noundef', 'nonnull', 'zeroext', 'signext', 'nocapture', 'readonly', 'writeonly', 'returned', 'noalias',
    'inreg', 'nest', 'immarg', 'readnone', 'nofree', 'swiftself', 'swifterror', 'noalias', 'inalloca'}
PARAM_ATTR_CALLS = {'align', 'dereferenceable', 'dereferenceable_or_null', 'sret', 'byval', 'byref', 'preallocated',
                    'elementtype'}


def skip_param_attrs(c):
    """Skips parameter attributes; returns dict of the interesting ones."""
    info = {}
    while True:
        k, v = c.peek()
        if k != 'word':
            break
        if v in PARAM_ATTR_WORDS:
            c.next()
            info[v] = True
        elif v in PARAM_ATTR_CALLS:
            c.next()
            if c.accept('('):
                if v in ('sret', 'byval', 'byref', 'preallocated', 'elementtype'):
                    info[v] = parse_type(c)
                else:
                    info[v] = int(c.next()[1])
                c.expect(')')
            else:  # "align 8"
                info[v] = int(c.next()[1])
        else:
            break
    return info


# ----------------------------------------------------------------------------------------------- module
class Global:
    def __init__(self, name):
        self.name = name
        self.ty = None
        self.init = None  # Const or None(external)
        self.align = 0
        self.const = False
        self.addr = None
        self.external = False


class Func:
    def __init__(self, name):
        self.name = name
        self.ret = None
        self.params = []  # (T, name, attrs)
        self.vararg = False
        self.blocks = []  # (label, [token lists])
        self.defined = False
        self.id = None


class Module:
    def __init__(self):
        self.named = {}
        self.globals = {}
        self.funcs = {}
        self.order = []
        self.aliases = {}

    # ---- layout
    def resolve(self, t):
        while t.k == 'named':
            if t.a not in self.named:
                raise Unsupported('unknown named type ' + t.a)
            t = self.named[t.a]
        return t

    def sizeof(self, t):
        t = self.resolve(t)
        if t.k == 'int':
            n = t.a
            if n <= 8:
                return 1
            if n <= 16:
                return 2
            if n <= 32:
                return 4
            if n <= 64:
                return 8
            return (n + 63) // 64 * 8  # i128 -> 16
        if t.k == 'ptr':
            return 8
        if t.k == 'float':
            return 4
        if t.k == 'double':
            return 8
        if t.k == 'array':
            return t.a * self.sizeof(t.b)
        if t.k == 'struct':
            return self.struct_layout(t)[1]
        if t.k == 'vec':
            return t.a * self.sizeof(t.b)
        if t.k == 'unsup' and t.a == 'x86_fp80':
            return 16
        raise Unsupported('sizeof ' + repr(t))

    def alignof(self, t):
        t = self.resolve(t)
        if t.k == 'int':
            return min(self.sizeof(t), 16) if t.a > 64 else self.sizeof(t)
        if t.k in ('ptr', 'double'):
            return 8
        if t.k == 'float':
            return 4
        if t.k == 'array':
            return self.alignof(t.b)
        if t.k == 'struct':
            if t.b:
                return 1
            return max([self.alignof(f) for f in t.a] or [1])
        if t.k == 'vec':
            return min(16, self.sizeof(t))
        if t.k == 'unsup' and t.a == 'x86_fp80':
            return 16
        raise Unsupported('alignof ' + repr(t))

    def struct_layout(self, t):
        t = self.resolve(t)
        off = 0
        offs = []
        mx = 1
        for f in t.a:
            if not t.b:
                al = self.alignof(f)
                mx = max(mx, al)
                off = (off + al - 1) // al * al
            offs.append(off)
            off += self.sizeof(f)
        if not t.b:
            off = (off + mx - 1) // mx * mx
        return offs, off


class Const:
    """A parsed constant (possibly aggregate / constant expression)."""
    __slots__ = ('k', 'ty', 'v')

    def __init__(self, k, ty, v):
        self.k, self.ty, self.v = k, ty, v


def join_lines(lines):
    """Joins multi-line instructions (switch tables, invoke 'to label', landingpad clauses)."""
    out = []
    i = 0
    n = len(lines)
    while i < n:
        ln = lines[i].rstrip('\n')
        s = ln.strip()
        if re.match(r'^\s+(%[-\w.$"]+ = )?switch ', ln) and not s.endswith(']'):
            while True:
                i += 1
                ln += ' ' + lines[i].strip()
                if lines[i].strip().startswith(']'):
                    break
        elif re.match(r'^\s+(%[-\w.$"]+ = )?invoke ', ln):
            while ' unwind label ' not in ln:
                i += 1
                ln += ' ' + lines[i].strip()
        elif re.match(r'^\s+(%[-\w.$"]+ = )?landingpad ', ln):
            while i + 1 < n and re.match(r'^\s+(cleanup|catch|filter)\b', lines[i + 1]):
                i += 1
                ln += ' ' + lines[i].strip()
        out.append(ln)
        i += 1
    return out


LINKAGE = {'private', 'internal', 'available_externally', 'linkonce', 'weak', 'common', 'appending', 'extern_weak',
           'linkonce_odr', 'weak_odr', 'external', 'dso_local', 'dso_preemptable', 'default', 'hidden', 'protected',
           'dllimport', 'dllexport', 'thread_local', 'unnamed_addr', 'local_unnamed_addr', 'externally_initialized'}


def parse_module(text):
    mod = Module()
    lines = join_lines(text.split('\n'))
    i = 0
    n = len(lines)
    while i < n:
        ln = lines[i]
        i += 1
        s = ln.strip()
        if not s or s.startswith(';') or s.startswith('source_filename') or s.startswith('target ') \
                or s.startswith('attributes ') or s.startswith('!') or s.startswith('$') or s.startswith('module asm'):
            continue
        if s.startswith('%') and ' = type ' in s:
            toks = tokenize(s)
            c = Cursor(toks)
            name = c.next()[1]
            c.expect('=')
            c.expect('type')
            mod.named[name] = parse_type(c)
            continue
        if s.startswith('@'):
            parse_global(mod, s)
            continue
        if s.startswith('declare '):
            f = parse_func_header(mod, tokenize(s), False)
            continue
        if s.startswith('define '):
            f = parse_func_header(mod, tokenize(s), True)
            cur = None
            while True:
                ln = lines[i]
                i += 1
                s = ln.strip()
                if s == '}':
                    break
                if not s or s.startswith(';'):
                    continue
                m = re.match(r'^([-\w.$]+|"[^"]*"):', s)
                if m and not ln.startswith('  '):
                    cur = (m.group(1), [])
                    f.blocks.append(cur)
                    continue
                if cur is None:
                    cur = ('%ENTRY', [])
                    f.blocks.append(cur)
                cur[1].append(s)
            continue
        raise Unsupported('top-level line: ' + s[:120])
    return mod


def parse_global(mod, s):
    toks = tokenize(s)
    c = Cursor(toks, mod)
    name = c.next()[1]
    c.expect('=')
    g = Global(name)
    external = False
    while True:
        k, v = c.peek()
        if k == 'word' and v in LINKAGE:
            c.next()
            if v in ('external', 'extern_weak'):
                external = True
            if v == 'thread_local' and c.accept('('):
                c.next(); c.expect(')')
        elif k == 'word' and v == 'addrspace':
            c.next(); c.expect('('); c.next(); c.expect(')')
        else:
            break
    k, v = c.next()
    if v == 'alias':
        ty = parse_type(c)
        c.expect(',')
        cst = parse_typed_const(c)
        mod.aliases[name] = cst
        return
    if v == 'ifunc':
        raise Unsupported('ifunc')
    g.const = (v == 'constant')
    g.ty = parse_type(c)
    if external:
        g.external = True
    else:
        g.init = parse_const(c, g.ty)
    while c.accept(','):
        k, v = c.next()
        if v == 'align':
            g.align = int(c.next()[1])
        elif v in ('comdat', 'section', 'partition'):
            if c.peek()[1] == '(':
                c.next(); c.next(); c.expect(')')
            elif c.peek()[0] == 'str':
                c.next()
        elif k == 'meta':
            c.next()
    mod.globals[name] = g
    mod.order.append(g)


def parse_func_header(mod, toks, defined):
    c = Cursor(toks, mod)
    c.next()  # define/declare
    while True:
        k, v = c.peek()
        if k == 'word' and (v in LINKAGE or v in ('fastcc', 'ccc', 'coldcc', 'tailcc', 'cc')):
            c.next()
            continue
        break
    skip_param_attrs(c)
    ret = parse_type(c)
    name = c.next()[1]
    f = mod.funcs.get(name)
    if f is None:
        f = Func(name)
        mod.funcs[name] = f
    f.ret = ret
    f.params = []
    c.expect('(')
    if not c.accept(')'):
        while True:
            if c.peek()[0] == 'dots':
                c.next()
                f.vararg = True
            else:
                ty = parse_type(c)
                attrs = skip_param_attrs(c)
                pname = None
                if c.peek()[0] == 'local':
                    pname = c.next()[1]
                f.params.append((ty, pname, attrs))
            if c.accept(')'):
                break
            c.expect(',')
    if defined:
        f.defined = True
        # unnamed params are numbered %0..%n-1
        k = 0
        newp = []
        for (ty, pname, attrs) in f.params:
            if pname is None:
                pname = '%' + str(k)
            k += 1
            newp.append((ty, pname, attrs))
        f.params = newp
        f.first_unnamed_block = k
    return f


# ----------------------------------------------------------------------------------------------- constants
def parse_typed_const(c):
    ty = parse_type(c)
    return parse_const(c, ty)


def parse_const(c, ty):
    k, v = c.next()
    mod = c.mod
    if k == 'num':
        return Const('num', ty, v)
    if k == 'word':
        if v in ('true', 'false'):
            return Const('num', ty, '1' if v == 'true' else '0')
        if v in ('null', 'zeroinitializer', 'undef', 'poison', 'none'):
            return Const('zero', ty, None)
        if v in ('getelementptr',):
            c.accept('inbounds')
            c.expect('(')
            bty = parse_type(c)
            c.expect(',')
            base = parse_typed_const(c)
            idx = []
            while c.accept(','):
                c.accept('inrange')
                idx.append(parse_typed_const(c))
            c.expect(')')
            return Const('gep', ty, (bty, base, idx))
        if v in ('bitcast', 'ptrtoint', 'inttoptr', 'addrspacecast', 'trunc', 'zext', 'sext'):
            c.expect('(')
            src = parse_typed_const(c)
            c.expect('to')
            dty = parse_type(c)
            c.expect(')')
            return Const('cast', dty, (v, src))
        if v in ('add', 'sub', 'mul', 'and', 'or', 'xor', 'shl', 'lshr'):
            while c.peek()[1] in ('nuw', 'nsw', 'exact'):
                c.next()
            c.expect('(')
            a = parse_typed_const(c)
            c.expect(',')
            b = parse_typed_const(c)
            c.expect(')')
            return Const('bin', ty, (v, a, b))
        if v in ('icmp', 'select'):
            raise Unsupported('constant expr ' + v)
        raise Unsupported('const word %r' % v)
    if k == 'global':
        return Const('global', ty, v)
    if k == 'str':
        raw = v[2:-1]
        b = bytearray()
        j = 0
        while j < len(raw):
            if raw[j] == '\\':
                b.append(int(raw[j + 1:j + 3], 16))
                j += 3
            else:
                b.append(ord(raw[j]))
                j += 1
        return Const('bytes', ty, bytes(b))
    if v in ('{', '['):
        close = '}' if v == '{' else ']'
        elems = []
        if not c.accept(close):
            while True:
                elems.append(parse_typed_const(c))
                if c.accept(close):
                    break
                c.expect(',')
        return Const('agg', ty, elems)
    if v == '<':
        if c.peek()[1] == '{':
            c.next()
            elems = []
            if not c.accept('}'):
                while True:
                    elems.append(parse_typed_const(c))
                    if c.accept('}'):
                        break
                    c.expect(',')
            c.expect('>')
            return Const('agg', ty, elems)
        raise Unsupported('vector constant')
    raise Unsupported('const token %r' % v)


def parse_float_literal(v, ty):
    """Returns python float for an LLVM fp literal."""
    if v.startswith('0x'):
        if v[2] in 'KLMHR':
            raise Unsupported('fp literal ' + v)
        bits = int(v, 16)
        return pystruct.unpack('<d', pystruct.pack('<Q', bits))[0]
    return float(v)


# ----------------------------------------------------------------------------------------------- emitter
def cid(name):
    s = name
    if s[0] in '@%':
        s = s[1:]
    if s.startswith('"'):
        s = s[1:-1]
    return re.sub(r'[^A-Za-z0-9_]', lambda m: '_%02x' % ord(m.group(0)), s)


ORDER = {'unordered': 0, 'monotonic': 0, 'acquire': 2, 'release': 3, 'acq_rel': 4, 'seq_cst': 5}

INTRINSIC_NOP = ('llvm.lifetime.', 'llvm.dbg.', 'llvm.experimental.noalias.', 'llvm.assume', 'llvm.invariant.',
                 'llvm.donothing', 'llvm.var.annotation', 'llvm.prefetch', 'llvm.sideeffect')


class Emitter:
    GLOBAL_BASE = 64  # first byte address used for globals (0..63 never valid: null page)
    FN_BASE = 0x7F000000

    def __init__(self, mod, opts=None):
        self.mod = mod
        self.opts = opts or {}
        self.out = []
        self.aggs = {}  # key -> (cname, [field T])
        self.dispatch = {}  # signature key -> (cname, ret T, [param ctype])
        self.dispatch_sites = []
        self.guards = []
        self.extern_used = {}
        self.str_globals = {}
        self.vtable_slots = {}  # slot -> set(func name)
        self.fn_ids = {}
        self.assign_ids()
        self.layout_globals()
        self.scan_vtables()

    # ---- ids and addresses
    def assign_ids(self):
        k = 1
        for name in sorted(self.mod.funcs):
            self.fn_ids[name] = self.FN_BASE + 16 * k
            k += 1

    COLD_BASE = 0x40000000  # tag strings used only by vp_assert/vp_reach live here and are never materialised

    def find_cold(self):
        """byte-array constants referenced only from vp_assert / vp_reach calls."""
        cand = {g.name for g in self.mod.order if g.init is not None and g.init.k == 'bytes' and g.const}
        if not cand:
            return set()
        uses = {n: [0, 0] for n in cand}
        rx = re.compile(r'@(?:"[^"]*"|[-\w.$]+)')
        for f in self.mod.funcs.values():
            for (_, instrs) in f.blocks:
                for ins in instrs:
                    if '@' not in ins:
                        continue
                    tagcall = ('@vp_assert(' in ins) or ('@vp_reach(' in ins)
                    for m in rx.finditer(ins):
                        n = m.group(0)
                        if n in uses:
                            uses[n][0 if tagcall else 1] += 1
        for g in self.mod.order:  # referenced from another global's initialiser -> not cold
            if g.init is not None:
                self._walk_globals(g.init, uses)
        return {n for n, (a, b) in uses.items() if a > 0 and b == 0}

    def _walk_globals(self, c, uses):
        if c.k == 'global' and c.v in uses:
            uses[c.v][1] += 1
        elif c.k == 'cast':
            self._walk_globals(c.v[1], uses)
        elif c.k == 'gep':
            self._walk_globals(c.v[1], uses)
        elif c.k == 'agg':
            for e in c.v:
                self._walk_globals(e, uses)
        elif c.k == 'bin':
            self._walk_globals(c.v[1], uses); self._walk_globals(c.v[2], uses)

    def layout_globals(self):
        addr = self.GLOBAL_BASE
        cold = self.find_cold()
        for g in self.mod.order:
            if cid(g.name).startswith('_ZTV') and not g.external:
                cold.add(g.name)  # vtables: only their address is used (virtual calls are resolved from the vptr value)
        caddr = self.COLD_BASE
        for g in self.mod.order:
            if g.name in cold:
                g.addr = caddr
                g.size = self.mod.sizeof(g.ty)
                g.cold = True
                caddr += (g.size + 7) // 8 * 8
        for g in self.mod.order:
            if g.name in cold:
                continue
            g.cold = False
            sz = self.mod.sizeof(g.ty) if not g.external else 8
            al = max(g.align, self.mod.alignof(g.ty) if not g.external else 8, 8)
            addr = (addr + al - 1) // al * al
            g.addr = addr
            g.size = sz
            addr += max(sz, 1)
            addr = (addr + 7) // 8 * 8
        self.globals_end = (addr + 63) // 64 * 64

    def global_addr(self, name):
        if name in self.mod.globals:
            return self.mod.globals[name].addr
        if name in self.mod.funcs:
            return self.fn_ids[name]
        if name in self.mod.aliases:
            return self.const_int(self.mod.aliases[name])
        raise Unsupported('unknown global ' + name)

    def const_int(self, c):
        """Evaluates a scalar constant to a python int (addresses are translator-assigned, so this is total)."""
        if c.k == 'num':
            t = self.mod.resolve(c.ty)
            if t.k in ('float', 'double'):
                f = parse_float_literal(c.v, t)
                if t.k == 'float':
                    return pystruct.unpack('<I', pystruct.pack('<f', f))[0]
                return pystruct.unpack('<Q', pystruct.pack('<d', f))[0]
            v = int(c.v, 0) if not c.v.startswith('0x') else int(c.v, 16)
            bits = t.a if t.k == 'int' else 64
            return v & ((1 << bits) - 1)
        if c.k == 'zero':
            return 0
        if c.k == 'global':
            return self.global_addr(c.v)
        if c.k == 'cast':
            op, src = c.v
            v = self.const_int(src)
            t = self.mod.resolve(c.ty)
            if op == 'trunc':
                return v & ((1 << t.a) - 1)
            if op == 'sext':
                st = self.mod.resolve(src.ty)
                if v >> (st.a - 1):
                    v -= 1 << st.a
                return v & ((1 << t.a) - 1)
            if t.k == 'int':
                return v & ((1 << t.a) - 1)
            return v
        if c.k == 'gep':
            bty, base, idx = c.v
            a = self.const_int(base)
            off = self.gep_const_offset(bty, [self.signed(self.const_int(i), i.ty) for i in idx])
            return (a + off) & 0xFFFFFFFFFFFFFFFF
        if c.k == 'bin':
            op, a, b = c.v
            x, y = self.const_int(a), self.const_int(b)
            t = self.mod.resolve(c.ty)
            bits = t.a if t.k == 'int' else 64
            sh = y & 127
            r = {'add': x + y, 'sub': x - y, 'mul': x * y, 'and': x & y, 'or': x | y, 'xor': x ^ y,
                 'shl': x << sh, 'lshr': x >> sh}[op]
            return r & ((1 << bits) - 1)
        raise Unsupported('const_int of ' + c.k)

    def signed(self, v, ty):
        t = self.mod.resolve(ty)
        bits = t.a if t.k == 'int' else 64
        if v >> (bits - 1):
            v -= 1 << bits
        return v

    def gep_const_offset(self, bty, idx):
        off = idx[0] * self.mod.sizeof(bty)
        t = self.mod.resolve(bty)
        for i in idx[1:]:
            if t.k == 'struct':
                offs, _ = self.mod.struct_layout(t)
                off += offs[i]
                t = self.mod.resolve(t.a[i])
            elif t.k in ('array', 'vec'):
                off += i * self.mod.sizeof(t.b)
                t = self.mod.resolve(t.b)
            else:
                raise Unsupported('gep into ' + t.k)
        return off

    def const_bytes(self, c, ty, buf, off):
        """Writes constant c of type ty at buf[off:]."""
        t = self.mod.resolve(ty)
        if c.k == 'zero':
            return
        if c.k == 'bytes':
            buf[off:off + len(c.v)] = c.v
            return
        if c.k == 'agg':
            if t.k == 'struct':
                offs, _ = self.mod.struct_layout(t)
                for e, o, ft in zip(c.v, offs, t.a):
                    self.const_bytes(e, ft, buf, off + o)
            elif t.k == 'array':
                es = self.mod.sizeof(t.b)
                for j, e in enumerate(c.v):
                    self.const_bytes(e, t.b, buf, off + j * es)
            else:
                raise Unsupported('agg const of ' + t.k)
            return
        v = self.const_int(c)
        sz = self.mod.sizeof(t)
        buf[off:off + sz] = v.to_bytes(sz, 'little')

    def scan_vtables(self):
        """slot -> functions stored at that virtual slot in any vtable (address point = index 2 with Itanium ABI)."""
        self.vtable_funcs = set()
        self.vtables = []  # (address point, [function name or None per slot])
        for g in self.mod.order:
            nm = cid(g.name)
            if not nm.startswith('_ZTV') or g.init is None:
                continue
            # { [N x i8*] } possibly several arrays (multiple inheritance)
            arrays = g.init.v if g.init.k == 'agg' else []
            gt = self.mod.resolve(g.ty)
            offs = self.mod.struct_layout(gt)[0] if gt.k == 'struct' else [0] * len(arrays)
            for aj, arr in enumerate(arrays):
                if arr.k != 'agg':
                    continue
                self.vtables.append((g.addr + offs[aj] + 16, [self.const_fn_name(e) for e in arr.v[2:]], g.name))
                # find address points: entries after (offset-to-top, typeinfo) pairs. Single inheritance: index 2.
                for j, e in enumerate(arr.v):
                    fn = self.const_fn_name(e)
                    if fn is not None:
                        self.vtable_slots.setdefault(j - 2, set()).add(fn)
                        self.vtable_funcs.add(fn)

    def const_fn_name(self, c):
        while c.k == 'cast':
            c = c.v[1]
        if c.k == 'global' and c.v in self.mod.funcs:
            return c.v
        if c.k == 'global' and c.v in self.mod.aliases:
            return self.const_fn_name(self.mod.aliases[c.v])
        return None

    # ---- C types
    def ctype(self, ty):
        t = self.mod.resolve(ty)
        if t.k == 'int':
            if t.a <= 8:
                return 'uint8_t'
            if t.a <= 16:
                return 'uint16_t'
            if t.a <= 32:
                return 'uint32_t'
            if t.a <= 64:
                return 'uint64_t'
            if t.a == 128:
                return 'vp_u128'
            raise Unsupported('int width %d' % t.a)
        if t.k == 'ptr':
            return 'uint64_t'
        if t.k == 'float':
            return 'float'
        if t.k == 'double':
            return 'double'
        if t.k == 'void':
            return 'void'
        if t.k in ('struct', 'array'):
            return 'struct ' + self.agg_name(t)
        raise Unsupported('ctype of ' + repr(t))

    def agg_fields(self, t):
        t = self.mod.resolve(t)
        if t.k == 'struct':
            return list(t.a)
        if t.k == 'array':
            return [t.b] * t.a
        raise Unsupported('agg_fields')

    def agg_name(self, t):
        key = t.key()
        if key not in self.aggs:
            nm = 'vp_agg%d' % len(self.aggs)
            self.aggs[key] = None
            fields = self.agg_fields(t)
            decl = 'struct %s { %s };' % (nm, ' '.join('%s f%d;' % (self.ctype(f), j) for j, f in enumerate(fields)))
            self.aggs[key] = (nm, decl)
        return self.aggs[key][0]

    def mask(self, ty):
        t = self.mod.resolve(ty)
        if t.k == 'int' and t.a not in (8, 16, 32, 64, 128):
            return (1 << t.a) - 1
        return None

    # ---- translate all
    def run(self):
        body = []
        protos = []
        reach = self.rta()[0]
        for name in sorted(self.mod.funcs):
            f = self.mod.funcs[name]
            if f.defined and name not in reach:
                f.defined = False  # unreachable from the harness entry points: not encoded
                f.blocks = []
                f.pruned = True
            if f.defined:
                fe = FuncEmitter(self, f)
                txt = fe.emit()
                txt = self.entry_ladder(f, txt)
                body.append(txt)
        for name in sorted(self.mod.funcs):
            f = self.mod.funcs[name]
            if self.is_intrinsic(name):
                continue
            if not f.defined and name not in self.extern_used and name not in self.vtable_funcs \
                    and name not in self.addr_taken():
                continue
            protos.append(self.proto(f) + ';')
        hdr = ['/* generated by ir2c.py -- do not edit */', '#include "vp_rt.h"']
        hdr += [d for (_, d) in self.aggs.values()]
        hdr += protos
        alias = ''
        if ('void(uint64_t)', None) in self.dispatch:
            alias = 'void vp_call_void_ptr(uint64_t fn, uint64_t a0) { %s(fn, a0); }\n' % self.dispatch[('void(uint64_t)', None)][0]
        else:
            self.dispatch[('void(uint64_t)', None)] = ('vp_call_void_ptr', VOID, [PTR], None)
        disp = self.emit_dispatchers() + '\n' + alias + self.emit_exc_dtor_dispatcher() + '\n' + self.emit_vcall_void()
        init = self.emit_init()
        hdr += ['VP_THREAD_LOCAL uint8_t %s;' % g for g in self.guards]
        if getattr(self, 'memlad_used', False):
            # loads/stores of the functions named by opts['ladder_mem_funcs'] go through a ladder over the registered objects'
            # words at opts['ladder_mem_offsets']: a symbolic address becomes a small mux instead of one over all of memory;
            # an address outside the ladder is reported (VP-BOUND), never silently mishandled
            cands = sorted(set(b + o for b in self.ladder_targets() if b not in self.static_vptrs() or True for o in (self.opts.get('ladder_mem_offsets') or [0])))
            ld = ['static uint64_t vp_ld_lad(uint64_t a, int sz) {'] + ['  if (a == %dUL) return vp_ld(%dUL, sz);' % (c, c) for c in cands] + \
                 ['  VP_FAIL("VP-BOUND: load through a pointer outside the registered ladder"); VP_ASSUME(0); return 0;', '}']
            st = ['static void vp_st_lad(uint64_t a, int sz, uint64_t v) {'] + ['  if (a == %dUL) { vp_st(%dUL, sz, v); return; }' % (c, c) for c in cands] + \
                 ['  VP_FAIL("VP-BOUND: store through a pointer outside the registered ladder"); VP_ASSUME(0);', '}']
            hdr += ld + st
        return '\n'.join(hdr) + '\n' + '\n'.join(self.dispatch_protos()) + '\n' + '\n'.join(body) + '\n' + disp + '\n' + init

    def entry_ladder(self, f, txt):
        """opts['ladder_funcs'] = [(regex on the C name, [argument indices]), ...]: the function gets an entry ladder that
        concretises the named pointer arguments against the registered vp_obj objects (+ opts['ladder_offsets']): inside each
        rung the argument is a constant, so the body's memory accesses through it have constant addresses.  Semantics are
        unchanged (the last rung passes the argument through)."""
        rules = self.opts.get('ladder_funcs') or []
        cn = self.fname(f.name)
        idxs = None
        for (rx, ix) in rules:
            if re.search(rx, cn):
                idxs = ix
                break
        if not idxs:
            return txt
        offs = self.opts.get('ladder_offsets') or [0]
        targets = sorted(set(b + o for b in self.ladder_targets() for o in offs))
        proto = self.proto(f)
        nargs = len(f.params)
        ret = self.ctype(f.ret)
        names = [cn] + ['%s__l%d' % (cn, k) for k in range(1, len(idxs))] + [cn + '__impl']
        out = [txt.replace(proto + ' {', 'static ' + proto.replace(cn + '(', names[-1] + '(', 1) + ' {', 1)]
        for k in range(len(idxs) - 1, -1, -1):
            j = idxs[k]
            me, nxt = names[k], names[k + 1]
            pr = proto.replace(cn + '(', me + '(', 1)
            lines = [('static ' if k else '') + pr + ' {']
            for t in targets:
                args = ', '.join(('%dUL' % t) if a == j else 'a%d' % a for a in range(nargs))
                call = '%s(%s)' % (nxt, args)
                if ret == 'void':
                    lines.append('  if (a%d == %dUL) { %s; return; }' % (j, t, call))
                else:
                    lines.append('  if (a%d == %dUL) { return %s; }' % (j, t, call))
            args = ', '.join('a%d' % a for a in range(nargs))
            if self.opts.get('ladder_strict'):
                # a pointer outside the ladder is reported, and the body is NOT run with it: even under an infeasible guard a store
                # through an unresolved pointer would turn every memory cell into a symbolic term
                lines.append('  VP_FAIL("VP-BOUND: pointer argument outside the registered ladder"); VP_ASSUME(0);')
                if ret != 'void':
                    lines.append('  { %s vp_zero = {0}; return vp_zero; }' % ret if ret.startswith('struct') else '  return 0;')
            else:
                lines.append('  %s%s(%s);' % ('' if ret == 'void' else 'return ', nxt, args))
            lines.append('}')
            out.append('\n'.join(lines))
        self.n_entry_ladders = getattr(self, 'n_entry_ladders', 0) + 1
        return '\n'.join(out)

    def is_intrinsic(self, name):
        return name.startswith('@llvm.')

    def proto(self, f):
        ps = ', '.join('%s %s' % (self.ctype(ty), 'a%d' % j) for j, (ty, pn, at) in enumerate(f.params))
        if f.vararg:
            ps = (ps + ', ...') if ps else 'void'
        return '%s %s(%s)' % (self.ctype(f.ret), self.fname(f.name), ps or 'void')

    def fname(self, name):
        n = cid(name)
        if n == 'main':
            return 'vp_user_main'
        return n

    _addr_taken = None

    def addr_taken(self):
        if self._addr_taken is None:
            s = set(self.vtable_funcs)

            def walk(c):
                if c is None:
                    return
                if c.k == 'global' and c.v in self.mod.funcs:
                    s.add(c.v)
                elif c.k == 'cast':
                    walk(c.v[1])
                elif c.k == 'gep':
                    walk(c.v[1])
                elif c.k == 'agg':
                    for e in c.v:
                        walk(e)
                elif c.k == 'bin':
                    walk(c.v[1]); walk(c.v[2])
            for g in self.mod.order:
                walk(g.init)
            self._addr_taken = s
        return self._addr_taken

    def note_addr_taken(self, name):
        self.addr_taken().add(name)

    # ---- dispatch
    def sig_key(self, ret, argtys):
        return self.ctype(ret) + '(' + ','.join(self.ctype(a) for a in argtys) + ')'

    def dispatcher(self, ret, argtys, slot):
        key = (self.sig_key(ret, argtys), slot)
        if key not in self.dispatch:
            nm = 'vp_dispatch%d' % len(self.dispatch)
            self.dispatch[key] = (nm, ret, list(argtys), slot)
        return self.dispatch[key][0]

    def dispatch_protos(self):
        out = []
        for key, (nm, ret, argtys, slot) in self.dispatch.items():
            ps = ', '.join(['uint64_t fn'] + ['%s a%d' % (self.ctype(a), j) for j, a in enumerate(argtys)])
            if nm != 'vp_call_void_ptr':
                out.append('%s %s(%s);' % (self.ctype(ret), nm, ps))
        return out

    def emit_vcall_void(self):
        """vp_vcall_void(obj, slot): obj->vptr[slot](obj) for void(ptr) virtual functions; used by the runtime's std::thread model."""
        out = ['void vp_vcall_void(uint64_t obj, uint32_t slot) {', '  uint64_t vptr = vp_ld(obj, 8);']
        livevt = self.rta()[1]
        for (ap, fns, gname) in self.vtables:
            if gname not in livevt:
                continue
            for k, fn in enumerate(fns):
                if fn is None or cid(fn) == '__cxa_pure_virtual':
                    continue
                f = self.mod.funcs[fn]
                try:
                    if f.vararg or len(f.params) != 1 or self.ctype(f.ret) != 'void' or self.ctype(f.params[0][0]) != 'uint64_t':
                        continue
                except Unsupported:
                    continue
                if 'Thread' not in gname and 'thread' not in gname and '_State' not in gname:
                    continue  # only std::thread::_State implementations are ever called this way
                self.extern_used.setdefault(fn, True)
                out.append('  if (vptr == %dUL && slot == %d) { %s(obj); return; }' % (ap, k, self.fname(fn)))
        out.append('  VP_FAIL("vp_vcall_void: unknown vtable / slot");')
        out.append('}')
        return '\n'.join(out)

    def emit_exc_dtor_dispatcher(self):
        """vp_call_exc_dtor: only functions that appear as the destructor argument of a __cxa_throw in this module."""
        cands = set()
        rx = re.compile(r'@__cxa_throw\((.*)\)')
        for f in self.mod.funcs.values():
            for (_, instrs) in f.blocks:
                for ins in instrs:
                    if '@__cxa_throw(' not in ins:
                        continue
                    for m in re.finditer(r'@(?:"[^"]*"|[-\w.$]+)', ins.split('@__cxa_throw(', 1)[1]):
                        if m.group(0) in self.mod.funcs:
                            cands.add(m.group(0))
        out = ['void vp_call_exc_dtor(uint64_t fn, uint64_t a0) {']
        for fn in sorted(cands):
            f = self.mod.funcs[fn]
            if len(f.params) == 1 and self.ctype(f.ret) == 'void':
                self.extern_used.setdefault(fn, True)
                out.append('  if (fn == %dUL) { %s(a0); return; }' % (self.fn_ids[fn], self.fname(fn)))
        out.append('  VP_FAIL("exception object destructor is not a function passed to __cxa_throw in this module");')
        out.append('}')
        return '\n'.join(out)

    def rta(self):
        """Rapid type analysis from the harness entry points (defined functions with unmangled names and global ctors):
        a vtable is live only if some reachable function mentions it (its constructor stores the address point)."""
        if hasattr(self, '_reach'):
            return self._reach, self._livevt
        funcs = self.mod.funcs
        roots = [n for n, f in funcs.items() if f.defined and not cid(n).startswith('_Z')]
        ctors = self.mod.globals.get('@llvm.global_ctors')
        if ctors is not None and ctors.init is not None and ctors.init.k == 'agg':
            for e in ctors.init.v:
                fn = self.const_fn_name(e.v[1])
                if fn:
                    roots.append(fn)
        vt_by_name = {}
        for (ap, fns, gname) in self.vtables:
            vt_by_name.setdefault(gname, []).extend(f for f in fns if f)
        rx = re.compile(r'@(?:"[^"]*"|[-\w.$]+)')
        reach, livevt, work = set(), set(), list(roots)
        seen_globals = set()

        def visit_global(gn):
            if gn in seen_globals:
                return
            seen_globals.add(gn)
            if gn in vt_by_name:
                livevt.add(gn)
                work.extend(vt_by_name[gn])
            g = self.mod.globals.get(gn)
            if g is not None and g.init is not None:
                self._walk_names(g.init, visit_name)

        def visit_name(n):
            if n in funcs:
                work.append(n)
            elif n in self.mod.aliases:
                t = self.const_fn_name(self.mod.aliases[n])
                if t:
                    work.append(t)
            elif n in self.mod.globals:
                visit_global(n)
        while work:
            fn = work.pop()
            if fn in reach or fn not in funcs:
                continue
            reach.add(fn)
            for (_, instrs) in funcs[fn].blocks:
                for ins in instrs:
                    if '@' in ins:
                        for m in rx.finditer(ins):
                            visit_name(m.group(0))
        self._reach, self._livevt = reach, livevt
        return reach, livevt

    def _walk_names(self, c, fn):
        if c.k == 'global':
            fn(c.v)
        elif c.k == 'cast':
            self._walk_names(c.v[1], fn)
        elif c.k == 'gep':
            self._walk_names(c.v[1], fn)
        elif c.k == 'agg':
            for e in c.v:
                self._walk_names(e, fn)
        elif c.k == 'bin':
            self._walk_names(c.v[1], fn); self._walk_names(c.v[2], fn)

    def ladder_targets(self):
        """addresses of harness objects registered for pointer concretisation: globals whose name contains 'vp_obj'
        (plus their secondary-base sub-objects when the dynamic type is known)."""
        base = [g.addr for g in self.mod.order if 'vp_obj' in g.name]
        sv = self.static_vptrs()
        extra = [a for a in sv if a not in base and any(b <= a < b + 4096 for b in base)]
        return base + sorted(extra)

    def static_vptrs(self):
        """address -> set of vtable address points known to be stored there, for objects at constant addresses:
        (1) `store <vtable address point>, <constant address>` in reachable code (inlined constructors);
        (2) a reachable call of a complete/base constructor _ZN<class>C[12]E... with a constant `this` -> _ZTVN<class>E,
            every vtable group at this - offset_to_top."""
        if hasattr(self, '_svp'):
            return self._svp
        res = {}
        reach = self.rta()[0]
        aps = {ap: (fns, gname) for (ap, fns, gname) in self.vtables}
        groups = {}
        for (ap, fns, gname) in self.vtables:
            groups.setdefault(gname, []).append(ap)
        for fn in reach:
            f = self.mod.funcs.get(fn)
            if f is None:
                continue
            last = {}  # within one function a later vptr store to the same address overwrites (base ctor, then derived)
            for (_, instrs) in f.blocks:
                for ins in instrs:
                    if ins.startswith('store ') and '@_ZTV' in ins:
                        try:
                            c = Cursor(tokenize(ins), self.mod)
                            c.next()
                            vty = parse_type(c)
                            val = parse_const(c, vty)
                            c.expect(',')
                            pty = parse_type(c)
                            if c.peek()[0] == 'local':
                                continue
                            ptr = parse_const(c, pty)
                            v, a = self.const_int(val), self.const_int(ptr)
                        except (Unsupported, ValueError, IndexError):
                            continue
                        if v in aps:
                            last[a] = v
                    elif ('call ' in ins or 'invoke ' in ins) and ('C1E' in ins or 'C2E' in ins):
                        m = re.search(r'@(_ZN(.+?)C[12]E[\w]*)\(', ins)
                        if not m:
                            continue
                        vt = '@_ZTVN' + m.group(2) + 'E'
                        msfx = re.search(r'_vpc\d$', m.group(1))   # module instantiated several times (core.suffix_all_defined)
                        if msfx:
                            vt += msfx.group(0)
                        if vt not in groups:
                            continue
                        try:
                            c = Cursor(tokenize(ins[m.end():]), self.mod)
                            aty = parse_type(c)
                            skip_param_attrs(c)
                            if c.peek()[0] == 'local':
                                continue
                            this = self.const_int(parse_const(c, aty))
                        except (Unsupported, ValueError, IndexError):
                            continue
                        g = self.mod.globals[vt]
                        if g.init is None or g.init.k != 'agg':
                            continue
                        for ap, arr in zip(groups[vt], [a for a in g.init.v if a.k == 'agg']):
                            try:
                                ott = self.signed(self.const_int(arr.v[0]), I64)
                            except Unsupported:
                                continue
                            res.setdefault(this - ott, set()).add(ap)
            for a, v in last.items():
                res.setdefault(a, set()).add(v)
        self._svp = res
        return res

    def emit_dispatchers(self):
        out = []
        taken = self.addr_taken()
        pending = list(self.dispatch.items())
        done = set()
        while pending:
            key, val = pending.pop(0)
            if key in done:
                continue
            done.add(key)
            self._emit_one_dispatcher(key, val, out, taken)
            for k2, v2 in list(self.dispatch.items()):
                if k2 not in done and (k2, v2) not in pending:
                    pending.append((k2, v2))
        return '\n'.join(out)

    def _emit_one_dispatcher(self, key, val, out, taken):
        (nm, ret, argtys, slot) = val
        if True:
            sig = key[0]
            ps = ', '.join(['uint64_t fn'] + ['%s a%d' % (self.ctype(a), j) for j, a in enumerate(argtys)])
            out.append('%s %s(%s) {' % (self.ctype(ret), nm, ps))
            rt = self.ctype(ret)
            args = ', '.join('a%d' % j for j in range(len(argtys)))
            if isinstance(slot, tuple) and slot[0] == 'o':
                inner = self.dispatcher(ret, argtys, ('v', slot[1]))
                call = lambda obj: '%s(%s)' % (inner, ', '.join(['vp_ld(%s, 8)' % obj, obj] + ['a%d' % j for j in range(1, len(argtys))]))
                lad = self.ladder_targets()
                sv = self.static_vptrs()
                apmap = {ap: fns for (ap, fns, gname) in self.vtables}
                for a in lad:
                    tgt = None
                    if a in sv:
                        tg = set()
                        for ap in sv[a]:
                            fns = apmap[ap]
                            tg.add(fns[slot[1]] if slot[1] < len(fns) else None)
                        if tg == {None}:
                            continue  # known dynamic type has no such slot: cannot be the receiver
                        if len(tg) == 1 and None not in tg:
                            tgt = tg.pop()
                            tf = self.mod.funcs[tgt]
                            try:
                                if self.sig_key(tf.ret, [p[0] for p in tf.params]) != sig:
                                    continue  # an object of this dynamic type cannot be the receiver of this call
                            except Unsupported:
                                continue
                    if tgt is not None and cid(tgt) != '__cxa_pure_virtual' and not self.mod.funcs[tgt].vararg:
                        # dynamic type of this harness object is known statically: direct call, no vptr read at all
                        self.extern_used.setdefault(tgt, True)
                        dc = '%s(%s)' % (self.fname(tgt), ', '.join(['%dUL' % a] + ['a%d' % j for j in range(1, len(argtys))]))
                        # re-entrancy guard (thread-local, so symex folds it): the same virtual function running twice on the same
                        # harness object at once is reported as a bound, and the infeasible self-recursion is pruned at depth 1
                        gv = 'vp_in_%s_%d' % (self.fname(tgt), a)
                        if gv not in self.guards:
                            self.guards.append(gv)
                        fail = 'VP_FAIL("VP-BOUND: re-entrant virtual call of the same function on the same vp_obj object");'
                        if rt == 'void':
                            out.append('  if (a0 == %dUL) { if (%s) { %s return; } %s = 1; %s; %s = 0; return; }' % (a, gv, fail, gv, dc, gv))
                        else:
                            z = ('{ %s z = {0}; return z; }' % rt) if (rt.startswith('struct') or rt == 'vp_u128') else 'return 0;'
                            out.append('  if (a0 == %dUL) { if (%s) { %s %s } %s = 1; %s vp_r = %s; %s = 0; return vp_r; }' % (a, gv, fail, z, gv, rt, dc, gv))
                    else:
                        out.append(('  if (a0 == %dUL) { %s; return; }' if rt == 'void' else '  if (a0 == %dUL) { return %s; }') % (a, call('%dUL' % a)))
                if lad:
                    out.append('  VP_FAIL("VP-BOUND: virtual call on an object outside the registered vp_obj ladder");')
                    if rt != 'void':
                        out.append('  { %s z = {0}; return z; }' % rt if (rt.startswith('struct') or rt == 'vp_u128') else '  return 0;')
                elif rt == 'void':
                    out.append('  %s;' % call('a0'))
                else:
                    out.append('  return %s;' % call('a0'))
                out.append('}')
                return
            if isinstance(slot, tuple):
                # dispatch on the vtable pointer value: no load from the vtable, candidates = vtables whose slot matches
                n = 0
                byfn = {}
                livevt = self.rta()[1]
                for (ap, fns, gname) in self.vtables:
                    if gname not in livevt:
                        continue  # no reachable code constructs this class: it cannot be the dynamic type
                    k = slot[1]
                    if k >= len(fns) or fns[k] is None:
                        continue
                    fn = fns[k]
                    f = self.mod.funcs[fn]
                    try:
                        fsig = self.sig_key(f.ret, [p[0] for p in f.params])
                    except Unsupported:
                        continue
                    if fsig != sig or f.vararg:
                        continue
                    byfn.setdefault(fn, []).append(ap)
                for fn in sorted(byfn):
                    cond = ' || '.join('fn == %dUL' % ap for ap in byfn[fn])
                    if cid(fn) == '__cxa_pure_virtual':
                        out.append('  if (%s) { VP_FAIL("pure virtual call"); }' % cond)
                        continue
                    self.extern_used.setdefault(fn, True)
                    call = '%s(%s)' % (self.fname(fn), args)
                    out.append(('  if (%s) { %s; return; }' if rt == 'void' else '  if (%s) { return %s; }') % (cond, call))
                    n += 1
                out.append('  VP_FAIL("virtual call through an unknown vtable pointer (%s, slot %s)");' % (sig, slot[1]))
                if rt != 'void':
                    out.append('  { %s z = {0}; return z; }' % rt if (rt.startswith('struct') or rt == 'vp_u128') else '  return 0;')
                out.append('}')
                return
            cands = []
            pool = taken if slot is None else (self.vtable_slots.get(slot, set()))
            for fn in sorted(pool):
                f = self.mod.funcs[fn]
                if f.vararg or self.is_intrinsic(fn) or getattr(f, 'pruned', False):
                    continue
                try:
                    fsig = self.sig_key(f.ret, [p[0] for p in f.params])
                except Unsupported:
                    continue
                if fsig == sig:
                    cands.append(fn)
                elif slot is None and len(f.params) < len(argtys) and \
                        fsig == self.sig_key(ret, argtys[:len(f.params)]):
                    cands.append(fn)  # callee ignores trailing arguments (e.g. libstdc++'s noop coroutine resume: void() called as void(void*))
            for fn in cands:
                if cid(fn) == '__cxa_pure_virtual':
                    continue
                call = '%s(%s)' % (self.fname(fn), ', '.join('a%d' % j for j in range(len(self.mod.funcs[fn].params))))
                self.extern_used.setdefault(fn, True)
                if rt == 'void':
                    out.append('  if (fn == %dUL) { %s; return; }' % (self.fn_ids[fn], call))
                else:
                    out.append('  if (fn == %dUL) { return %s; }' % (self.fn_ids[fn], call))
            out.append('  VP_FAIL("indirect call to unknown target (%s, slot %s)");' % (sig, slot))
            if rt != 'void':
                if rt.startswith('struct') or rt == 'vp_u128':
                    out.append('  { %s z = {0}; return z; }' % rt)
                else:
                    out.append('  return 0;')
            out.append('}')

    # ---- init image
    def emit_init(self):
        size = self.globals_end
        buf = bytearray(size)
        for g in self.mod.order:
            if g.init is not None and not g.cold:
                self.const_bytes(g.init, g.ty, buf, g.addr)
        out = ['const uint64_t vp_globals_end = %dUL;' % size, 'void vp_init_globals(void) {']
        for w in range(0, size, 8):
            v = int.from_bytes(buf[w:w + 8], 'little')
            if v:
                out.append('  vp_initw(%d, %dUL);' % (w // 8, v))
        out.append('}')
        ctors = self.mod.globals.get('@llvm.global_ctors')
        out.append('void vp_run_ctors(void) {')
        if ctors is not None and ctors.init is not None and ctors.init.k == 'agg':
            for e in ctors.init.v:
                fn = self.const_fn_name(e.v[1])
                if fn:
                    out.append('  %s();' % self.fname(fn))
        out.append('}')
        # table of global names for diagnostics
        out.append('/* globals:')
        for g in self.mod.order:
            out.append('   %6d %5d %s' % (g.addr, g.size, g.name))
        out.append('*/')
        out.append('/* function ids:')
        for fn, i in sorted(self.fn_ids.items(), key=lambda x: x[1]):
            out.append('   %d %s' % (i, fn))
        out.append('*/')
        return '\n'.join(out)


class FuncEmitter:
    def __init__(self, em, f):
        self.em = em
        self.mod = em.mod
        self.f = f
        self.types = {}  # local name -> T
        self.lines = []
        self.defs = {}  # local name -> parsed instruction (for pattern matching)
        self.has_alloca = False
        self.tmpc = 0
        rx2 = em.opts.get('sync_plain_funcs')
        self.syncplain = bool(rx2 and re.search(rx2, em.fname(f.name)))
        rx = em.opts.get('ladder_mem_funcs')
        self.memlad = bool(rx and re.search(rx, em.fname(f.name)))
        if self.memlad:
            em.memlad_used = True

    def lname(self, name):
        return 'r_' + cid(name)

    def blabel(self, name):
        return 'bb_' + cid(name)

    # ---- operand parsing
    def parse_value(self, c, ty):
        """Parses a value of known type; returns C expression."""
        k, v = c.peek()
        t = self.mod.resolve(ty)
        if k == 'local':
            c.next()
            return self.lname(v)
        if k == 'num' and t.k in ('float', 'double'):
            c.next()
            f = parse_float_literal(v, t)
            if f != f:
                return '(0.0/0.0)'
            if f in (float('inf'), float('-inf')):
                return '(%s1.0/0.0)' % ('-' if f < 0 else '')
            return ('%r' % f) + ('f' if t.k == 'float' else '')
        if k == 'word' and v in ('undef', 'poison') and t.k in ('struct', 'array'):
            c.next()
            return self.zero_agg(t)
        if k == 'word' and v == 'zeroinitializer' and t.k in ('struct', 'array'):
            c.next()
            return self.zero_agg(t)
        if v in ('{', '[') and t.k in ('struct', 'array'):
            cst = parse_const(Cursor(c.t[c.i:], self.mod), ty)
            raise Unsupported('aggregate literal operand')
        cc = Cursor(c.t, self.mod)
        cc.i = c.i
        cst = parse_const(cc, ty)
        c.i = cc.i
        if t.k in ('float', 'double'):
            return '0.0'
        self.note_const_funcs(cst)
        val = self.em.const_int(cst)
        if t.k == 'int' and t.a == 128:
            return 'vp_mk128(%dUL, %dUL)' % (val & 0xFFFFFFFFFFFFFFFF, val >> 64)
        return '%dUL' % val if val > 0x7FFFFFFF else '%d' % val

    def note_const_funcs(self, c):
        if c.k == 'global' and c.v in self.mod.funcs:
            self.em.note_addr_taken(c.v)
        elif c.k == 'cast':
            self.note_const_funcs(c.v[1])
        elif c.k == 'gep':
            self.note_const_funcs(c.v[1])

    def zero_agg(self, t):
        return '(%s){0}' % self.em.ctype(t)

    def parse_tv(self, c):
        ty = parse_type(c)
        skip_param_attrs(c)
        return ty, self.parse_value(c, ty)

    # ---- main
    def emit(self):
        f = self.f
        em = self.em
        # pass 1: result types
        for (label, instrs) in f.blocks:
            for s in instrs:
                self.scan_result_type(s)
        for (ty, pn, at) in f.params:
            self.types[pn] = ty
        out = []
        out.append(em.proto(f) + ' {')
        body = []
        for bi, (label, instrs) in enumerate(f.blocks):
            lab = label
            if lab == '%ENTRY':
                lab = str(f.first_unnamed_block)
            self.cur_block = lab
            body.append('%s: ;' % self.blabel(lab))
            for s in instrs:
                try:
                    self.instr(s, body)
                except Unsupported as e:
                    raise Unsupported('%s in function %s: %s' % (e, f.name, s[:160]))
        # declarations
        decls = []
        for j, (ty, pn, at) in enumerate(f.params):
            decls.append('  %s %s = a%d;' % (em.ctype(ty), self.lname(pn), j))
        for name, ty in self.types.items():
            if any(name == p[1] for p in f.params):
                continue
            t = self.mod.resolve(ty)
            if t.k == 'void':
                continue
            ct = em.ctype(ty)
            if ct.startswith('struct') or ct == 'vp_u128':
                decls.append('  %s %s = {0};' % (ct, self.lname(name)))
            else:
                decls.append('  %s %s = 0;' % (ct, self.lname(name)))
        if self.has_alloca:
            decls.append('  uint64_t vp_sp0 = vp_stack_save();')
        for k in range(self.tmpc):
            pass
        out += decls
        out += self.tmpdecls if hasattr(self, 'tmpdecls') else []
        out += body
        out.append('}')
        return '\n'.join(out)

    def scan_result_type(self, s):
        m = re.match(r'^(%(?:"[^"]*"|[-\w.$]+)) = (.*)$', s)
        if not m:
            return
        name, rest = m.group(1), m.group(2)
        toks = tokenize(rest)
        c = Cursor(toks, self.mod)
        op = c.next()[1]
        ty = None
        if op in ('add', 'sub', 'mul', 'udiv', 'sdiv', 'urem', 'srem', 'shl', 'lshr', 'ashr', 'and', 'or', 'xor',
                  'fadd', 'fsub', 'fmul', 'fdiv', 'frem', 'fneg'):
            while c.peek()[0] == 'word' and c.peek()[1] in ('nuw', 'nsw', 'exact', 'fast', 'nnan', 'ninf', 'nsz',
                                                              'arcp', 'contract', 'afn', 'reassoc'):
                c.next()
            ty = parse_type(c)
        elif op in ('icmp', 'fcmp'):
            ty = I1
        elif op in ('load',):
            c.accept('atomic'); c.accept('volatile')
            ty = parse_type(c)
        elif op in ('alloca', 'getelementptr', 'inttoptr'):
            ty = PTR
        elif op in ('bitcast', 'ptrtoint', 'trunc', 'zext', 'sext', 'fptrunc', 'fpext', 'fptoui', 'fptosi', 'uitofp',
                    'sitofp', 'addrspacecast'):
            # ... to T
            idx = len(toks) - 1
            depth = 0
            # find the last top-level 'to'
            j = len(toks) - 1
            while j >= 0:
                if toks[j][1] == 'to' and toks[j][0] == 'word':
                    break
                j -= 1
            cc = Cursor(toks[j + 1:], self.mod)
            ty = parse_type(cc)
        elif op == 'phi':
            ty = parse_type(c)
        elif op == 'select':
            parse_type(c)
            self.skip_value(c)
            c.expect(',')
            ty = parse_type(c)
        elif op in ('call', 'invoke', 'tail', 'musttail', 'notail'):
            if op in ('tail', 'musttail', 'notail'):
                c.next()
            self.skip_call_prefix(c)
            ty = parse_type(c)
            if ty.k == 'func':
                ty = ty.a
        elif op == 'extractvalue':
            aty = parse_type(c)
            self.skip_value(c)
            t = aty
            while c.accept(','):
                i = int(c.next()[1])
                t = self.em.agg_fields(t)[i]
            ty = t
        elif op == 'insertvalue':
            ty = parse_type(c)
        elif op == 'cmpxchg':
            c.accept('weak'); c.accept('volatile')
            parse_type(c); self.skip_value(c); c.expect(',')
            vt = parse_type(c)
            ty = T('struct', [vt, I1], False)
        elif op == 'atomicrmw':
            c.accept('volatile')
            c.next()
            parse_type(c); self.skip_value(c); c.expect(',')
            ty = parse_type(c)
        elif op == 'landingpad':
            ty = parse_type(c)
        elif op == 'freeze':
            ty = parse_type(c)
        elif op == 'va_arg':
            raise Unsupported('va_arg')
        else:
            raise Unsupported('result type of op %r in %s' % (op, self.f.name))
        self.types[name] = ty
        self.defs[name] = rest

    def skip_value(self, c):
        k, v = c.next()
        if k == 'word' and v in ('getelementptr', 'bitcast', 'ptrtoint', 'inttoptr', 'add', 'sub', 'trunc', 'zext',
                                 'sext', 'and', 'or', 'mul', 'shl', 'lshr', 'xor', 'addrspacecast'):
            while c.peek()[1] in ('inbounds', 'nuw', 'nsw', 'exact'):
                c.next()
            c.expect('(')
            depth = 1
            while depth:
                k, v = c.next()
                if v == '(':
                    depth += 1
                elif v == ')':
                    depth -= 1
        elif v in ('{', '[', '<'):
            close = {'{': '}', '[': ']', '<': '>'}[v]
            depth = 1
            while depth:
                k, x = c.next()
                if x == v:
                    depth += 1
                elif x == close:
                    depth -= 1

    def skip_call_prefix(self, c):
        while True:
            k, v = c.peek()
            if k == 'word' and v in ('fast', 'nnan', 'ninf', 'nsz', 'arcp', 'contract', 'afn', 'reassoc', 'fastcc',
                                     'ccc', 'coldcc', 'tailcc'):
                c.next()
                continue
            break
        skip_param_attrs(c)

    def tmp(self, ctype, body):
        nm = 'vp_t%d' % self.tmpc
        self.tmpc += 1
        if not hasattr(self, 'tmpdecls'):
            self.tmpdecls = []
        if ctype.startswith('struct') or ctype == 'vp_u128':
            self.tmpdecls.append('  %s %s = {0};' % (ctype, nm))
        else:
            self.tmpdecls.append('  %s %s = 0;' % (ctype, nm))
        return nm

    # ---- phi handling: copies are emitted on edges
    def edge(self, target, body, indent='  '):
        """Emits phi copies for edge cur_block -> target, then goto."""
        tgt = target[1:] if target.startswith('%') else target
        if tgt.startswith('"'):
            tgt = tgt[1:-1]
        phis = self.phis_of(tgt)
        src = self.cur_block
        copies = []
        for (dst, ty, incoming) in phis:
            val = None
            for (vexpr, lab) in incoming:
                if lab == src:
                    val = vexpr
                    break
            if val is None:
                raise Unsupported('phi in %s has no incoming for %s' % (tgt, src))
            copies.append((dst, ty, val))
        res = []
        if len(copies) == 1:
            res.append('%s%s = %s;' % (indent, self.lname(copies[0][0]), copies[0][2]))
        elif copies:
            tmps = []
            for (dst, ty, val) in copies:
                tnm = self.tmp(self.em.ctype(ty), None)
                res.append('%s%s = %s;' % (indent, tnm, val))
                tmps.append(tnm)
            for (dst, ty, val), tnm in zip(copies, tmps):
                res.append('%s%s = %s;' % (indent, self.lname(dst), tnm))
        res.append('%sgoto %s;' % (indent, self.blabel(tgt)))
        body.extend(res)

    def phis_of(self, label):
        if not hasattr(self, '_phis'):
            self._phis = {}
        if label in self._phis:
            return self._phis[label]
        res = []
        for (lab, instrs) in self.f.blocks:
            l2 = lab if lab != '%ENTRY' else str(self.f.first_unnamed_block)
            if l2 != label:
                continue
            for s in instrs:
                m = re.match(r'^(%(?:"[^"]*"|[-\w.$]+)) = phi (.*)$', s)
                if not m:
                    break
                c = Cursor(tokenize(m.group(2)), self.mod)
                ty = parse_type(c)
                inc = []
                while True:
                    c.expect('[')
                    v = self.parse_value(c, ty)
                    c.expect(',')
                    lab2 = c.next()[1]
                    lab2 = lab2[1:]
                    if lab2.startswith('"'):
                        lab2 = lab2[1:-1]
                    c.expect(']')
                    inc.append((v, lab2))
                    if not c.accept(','):
                        break
                res.append((m.group(1), ty, inc))
        self._phis[label] = res
        return res

    # ---- instructions
    def instr(self, s, body):
        m = re.match(r'^(%(?:"[^"]*"|[-\w.$]+)) = (.*)$', s)
        dst = None
        rest = s
        if m:
            dst, rest = m.group(1), m.group(2)
        toks = tokenize(rest)
        # strip trailing metadata ", !tbaa !5, !x !y"
        cut = len(toks)
        for j, (k, v) in enumerate(toks):
            if k == 'meta' and j > 0 and toks[j - 1][1] == ',':
                cut = j - 1
                break
        toks = toks[:cut]
        c = Cursor(toks, self.mod)
        op = c.next()[1]
        em = self.em
        D = self.lname(dst) if dst else None

        def assign(expr, ty=None):
            ty = ty or self.types[dst]
            mk = em.mask(ty)
            if mk is not None:
                expr = '((%s) & %dUL)' % (expr, mk)
            body.append('  %s = %s;' % (D, expr))

        if op in ('add', 'sub', 'mul', 'and', 'or', 'xor', 'shl', 'lshr', 'ashr', 'udiv', 'sdiv', 'urem', 'srem'):
            while c.peek()[1] in ('nuw', 'nsw', 'exact'):
                c.next()
            ty = parse_type(c)
            a = self.parse_value(c, ty)
            c.expect(',')
            b = self.parse_value(c, ty)
            t = self.mod.resolve(ty)
            if t.k != 'int':
                raise Unsupported('vector/other arithmetic')
            bits = t.a
            if bits == 128:
                assign('vp_%s128(%s, %s)' % (op, a, b))
                return
            ct = em.ctype(ty)
            U = '(uint64_t)'
            if op in ('add', 'sub', 'mul', 'and', 'or', 'xor'):
                sym = {'add': '+', 'sub': '-', 'mul': '*', 'and': '&', 'or': '|', 'xor': '^'}[op]
                assign('(%s)(%s(%s) %s %s(%s))' % (ct, U, a, sym, U, b))
            elif op == 'shl':
                assign('(%s)(%s(%s) << (%s(%s) & 63))' % (ct, U, a, U, b))
            elif op == 'lshr':
                assign('(%s)(%s(%s) >> (%s(%s) & 63))' % (ct, U, a, U, b))
            elif op == 'ashr':
                assign('(%s)(%s >> (%s(%s) & 63))' % (ct, self.sx(a, bits), U, b))
            elif op in ('udiv', 'urem'):
                sym = '/' if op == 'udiv' else '%'
                assign('(%s)vp_%s(%s(%s), %s(%s))' % (ct, op, U, a, U, b))
            else:
                assign('(%s)vp_%s(%s, %s)' % (ct, op, self.sx(a, bits), self.sx(b, bits)))
            return
        if op in ('fadd', 'fsub', 'fmul', 'fdiv'):
            while c.peek()[0] == 'word' and c.peek()[1] in ('fast', 'nnan', 'ninf', 'nsz', 'arcp', 'contract', 'afn',
                                                              'reassoc'):
                c.next()
            ty = parse_type(c)
            a = self.parse_value(c, ty)
            c.expect(',')
            b = self.parse_value(c, ty)
            bits = 32 if self.mod.resolve(ty).k == 'float' else 64
            assign('VP_F%s%d(%s, %s)' % (op[1:].upper(), bits, a, b))
            return
        if op == 'fneg':
            ty = parse_type(c)
            a = self.parse_value(c, ty)
            assign('-(%s)' % a)
            return
        if op == 'icmp':
            pred = c.next()[1]
            ty = parse_type(c)
            a = self.parse_value(c, ty)
            c.expect(',')
            b = self.parse_value(c, ty)
            t = self.mod.resolve(ty)
            bits = t.a if t.k == 'int' else 64
            if bits == 128:
                raise Unsupported('icmp i128')
            sym = {'eq': '==', 'ne': '!=', 'ugt': '>', 'uge': '>=', 'ult': '<', 'ule': '<=', 'sgt': '>', 'sge': '>=',
                   'slt': '<', 'sle': '<='}[pred]
            if pred[0] == 's':
                assign('(%s %s %s)' % (self.sx(a, bits), sym, self.sx(b, bits)))
            else:
                assign('((uint64_t)(%s) %s (uint64_t)(%s))' % (a, sym, b))
            return
        if op == 'fcmp':
            pred = c.next()[1]
            ty = parse_type(c)
            a = self.parse_value(c, ty)
            c.expect(',')
            b = self.parse_value(c, ty)
            ordered = {'oeq': '==', 'ogt': '>', 'oge': '>=', 'olt': '<', 'ole': '<=', 'one': '!='}
            unordered = {'ueq': '==', 'ugt': '>', 'uge': '>=', 'ult': '<', 'ule': '<=', 'une': '!='}
            if pred in ordered:
                if pred == 'one':
                    assign('((%s) == (%s) && (%s) == (%s) && (%s) != (%s))' % (a, a, b, b, a, b))
                else:
                    assign('((%s) %s (%s))' % (a, ordered[pred], b))
            elif pred in unordered:
                assign('(((%s) != (%s)) || ((%s) != (%s)) || ((%s) %s (%s)))' % (a, a, b, b, a, unordered[pred], b))
            elif pred == 'ord':
                assign('((%s) == (%s) && (%s) == (%s))' % (a, a, b, b))
            elif pred == 'uno':
                assign('((%s) != (%s) || (%s) != (%s))' % (a, a, b, b))
            else:
                raise Unsupported('fcmp ' + pred)
            return
        if op in ('bitcast', 'ptrtoint', 'inttoptr', 'trunc', 'zext', 'sext', 'addrspacecast', 'fptrunc', 'fpext',
                  'fptoui', 'fptosi', 'uitofp', 'sitofp'):
            sty = parse_type(c)
            a = self.parse_value(c, sty)
            c.expect('to')
            dty = parse_type(c)
            st, dt = self.mod.resolve(sty), self.mod.resolve(dty)
            ct = em.ctype(dty)
            if op == 'bitcast':
                if st.k in ('float', 'double') or dt.k in ('float', 'double'):
                    if st.k == dt.k:
                        assign(a)
                    elif dt.k == 'float':
                        assign('vp_bits2f(%s)' % a)
                    elif dt.k == 'double':
                        assign('vp_bits2d(%s)' % a)
                    elif st.k == 'float':
                        assign('vp_f2bits(%s)' % a)
                    else:
                        assign('vp_d2bits(%s)' % a)
                elif st.k in ('vec',) or dt.k in ('vec',):
                    raise Unsupported('vector bitcast')
                else:
                    assign(a)
            elif op in ('ptrtoint', 'inttoptr', 'trunc', 'zext', 'addrspacecast'):
                if st.k == 'int' and st.a == 128:
                    assign('(%s)vp_lo128(%s)' % (ct, a))
                elif dt.k == 'int' and dt.a == 128:
                    assign('vp_mk128((uint64_t)(%s), 0)' % a)
                else:
                    assign('(%s)(%s)' % (ct, a))
            elif op == 'sext':
                if dt.a == 128:
                    raise Unsupported('sext to i128')
                assign('(%s)%s' % (ct, self.sx(a, st.a)))
            elif op in ('fptrunc', 'fpext'):
                assign('(%s)(%s)' % (ct, a))
            elif op == 'uitofp':
                assign('(%s)(uint64_t)(%s)' % (ct, a))
            elif op == 'sitofp':
                assign('(%s)%s' % (ct, self.sx(a, st.a)))
            elif op == 'fptoui':
                assign('(%s)(uint64_t)(%s)' % (ct, a))
            elif op == 'fptosi':
                assign('(%s)(int64_t)(%s)' % (ct, a))
            return
        if op == 'freeze':
            ty, a = self.parse_tv(c)
            assign(a)
            return
        if op == 'select':
            cty = parse_type(c)
            cond = self.parse_value(c, cty)
            c.expect(',')
            ty = parse_type(c)
            a = self.parse_value(c, ty)
            c.expect(',')
            ty2 = parse_type(c)
            b = self.parse_value(c, ty2)
            if self.mod.resolve(cty).k == 'vec':
                raise Unsupported('vector select')
            assign('((%s) ? (%s) : (%s))' % (cond, a, b))
            return
        if op == 'getelementptr':
            c.accept('inbounds')
            bty = parse_type(c)
            c.expect(',')
            pty, base = self.parse_tv(c)
            terms = [base]
            const_off = 0
            first = True
            t = bty
            while c.accept(','):
                ity = parse_type(c)
                k, v = c.peek()
                if self.mod.resolve(ity).k == 'vec':
                    raise Unsupported('vector gep')
                if first:
                    scale = self.mod.sizeof(bty)
                    cur = None
                else:
                    rt = self.mod.resolve(t)
                    if rt.k == 'struct':
                        idx = int(c.next()[1])
                        offs, _ = self.mod.struct_layout(rt)
                        const_off += offs[idx]
                        t = rt.a[idx]
                        continue
                    elif rt.k in ('array', 'vec'):
                        scale = self.mod.sizeof(rt.b)
                        t = rt.b
                    else:
                        raise Unsupported('gep through ' + rt.k)
                first = False
                if k == 'num':
                    c.next()
                    const_off += self.em.signed(int(v) & ((1 << 64) - 1), I64) * scale if int(v) >= 0 else int(v) * scale
                else:
                    iv = self.parse_value(c, ity)
                    ibits = self.mod.resolve(ity).a
                    terms.append('(uint64_t)(%s * (int64_t)%d)' % (self.sx(iv, ibits), scale))
            expr = ' + '.join('(uint64_t)(%s)' % x if j == 0 else x for j, x in enumerate(terms))
            if const_off:
                expr += ' + (uint64_t)(%dL)' % const_off
            assign(expr, PTR)
            return
        if op == 'alloca':
            c.accept('inalloca')
            ty = parse_type(c)
            count = '1'
            align = self.mod.alignof(ty)
            while c.accept(','):
                if c.accept('align'):
                    align = int(c.next()[1])
                elif c.accept('addrspace'):
                    c.expect('('); c.next(); c.expect(')')
                else:
                    cty, count = self.parse_tv(c)
            self.has_alloca = True
            assign('vp_alloca((uint64_t)%d * (uint64_t)(%s), %d)' % (self.mod.sizeof(ty), count, align), PTR)
            return
        if op == 'load' and dst and self.vslot_of(dst) is not None and self.only_callee_use(dst):
            return  # function pointer fetched from a vtable slot: resolved from the vptr value by the dispatcher instead
        if op == 'load' and dst and self.is_suppressed_vptr_load(dst):
            return  # vptr load feeding only an obj-mode virtual call: done inside the dispatcher
        if op == 'getelementptr' and dst and self.use_count(dst) == 2 and any(
                d.startswith('load ') and self.vslot_of(n) is not None and self.only_callee_use(n) and
                re.search(r'\*\s*' + re.escape(dst) + r'\s*(,|$)', d) for n, d in self.defs.items()):
            return  # vtable slot address: unused once the function pointer load is gone
        if op == 'load':
            atomic = c.accept('atomic')
            c.accept('volatile')
            ty = parse_type(c)
            c.expect(',')
            pty, p = self.parse_tv(c)
            order = None
            if atomic:
                if c.peek()[1] == 'syncscope':
                    c.next(); c.expect('('); c.next(); c.expect(')')
                order = c.next()[1]
            if order is None:
                self.plain_sync(p, body)
            assign(self.load_expr(ty, p, order))
            return
        if op == 'store':
            atomic = c.accept('atomic')
            c.accept('volatile')
            ty, v = self.parse_tv(c)
            c.expect(',')
            pty, p = self.parse_tv(c)
            order = None
            if atomic:
                if c.peek()[1] == 'syncscope':
                    c.next(); c.expect('('); c.next(); c.expect(')')
                order = c.next()[1]
            if order is None:
                self.plain_sync(p, body)
            body.append('  ' + self.store_stmt(ty, p, v, order))
            return
        if op == 'fence':
            if c.peek()[1] == 'syncscope':
                c.next(); c.expect('('); c.next(); c.expect(')')
            order = c.next()[1]
            body.append('  vp_fence(%d);' % ORDER[order])
            return
        if op == 'cmpxchg':
            weak = c.accept('weak')
            c.accept('volatile')
            pty, p = self.parse_tv(c)
            c.expect(',')
            ty, e = self.parse_tv(c)
            c.expect(',')
            ty2, d = self.parse_tv(c)
            if c.peek()[1] == 'syncscope':
                c.next(); c.expect('('); c.next(); c.expect(')')
            so = c.next()[1]
            fo = c.next()[1]
            t = self.mod.resolve(ty)
            sz = self.mod.sizeof(t)
            if t.k not in ('int', 'ptr') or sz > 8:
                raise Unsupported('cmpxchg on ' + t.k)
            body.append('  { struct vp_cas_res vp_cr = vp_cmpxchg(%s, %d, (uint64_t)(%s), (uint64_t)(%s), %d, %d, %d); %s.f0 = (%s)vp_cr.old; %s.f1 = vp_cr.ok; }'
                        % (p, sz, e, d, 1 if weak else 0, ORDER[so], ORDER[fo], D, em.ctype(ty), D))
            return
        if op == 'atomicrmw':
            c.accept('volatile')
            rop = c.next()[1]
            pty, p = self.parse_tv(c)
            c.expect(',')
            ty, v = self.parse_tv(c)
            if c.peek()[1] == 'syncscope':
                c.next(); c.expect('('); c.next(); c.expect(')')
            order = c.next()[1]
            t = self.mod.resolve(ty)
            sz = self.mod.sizeof(t)
            ops = {'xchg': 0, 'add': 1, 'sub': 2, 'and': 3, 'or': 4, 'xor': 5, 'nand': 6, 'max': 7, 'min': 8, 'umax': 9,
                   'umin': 10}
            if rop not in ops or t.k not in ('int', 'ptr'):
                raise Unsupported('atomicrmw ' + rop + ' on ' + t.k)
            assign('(%s)vp_atomic_rmw(%d, %s, %d, (uint64_t)(%s), %d)' % (em.ctype(ty), ops[rop], p, sz, v, ORDER[order]))
            return
        if op == 'extractvalue':
            aty, a = self.parse_tv(c)
            expr = a
            while c.accept(','):
                i = int(c.next()[1])
                expr += '.f%d' % i
            assign(expr)
            return
        if op == 'insertvalue':
            aty, a = self.parse_tv(c)
            c.expect(',')
            ety, e = self.parse_tv(c)
            path = ''
            while c.accept(','):
                path += '.f%d' % int(c.next()[1])
            body.append('  %s = %s; %s%s = %s;' % (D, a, D, path, e))
            return
        if op == 'phi':
            return  # handled on edges
        if op == 'br':
            if c.accept('label'):
                self.edge(c.next()[1], body)
                return
            cty, cond = self.parse_tv(c)
            c.expect(',')
            c.expect('label')
            t1 = c.next()[1]
            c.expect(',')
            c.expect('label')
            t2 = c.next()[1]
            body.append('  if (%s) {' % cond)
            self.edge(t1, body, '    ')
            body.append('  } else {')
            self.edge(t2, body, '    ')
            body.append('  }')
            return
        if op == 'switch':
            ty, v = self.parse_tv(c)
            c.expect(',')
            c.expect('label')
            dflt = c.next()[1]
            c.expect('[')
            first = True
            while not c.accept(']'):
                cty = parse_type(c)
                cv = self.parse_value(c, cty)
                c.expect(',')
                c.expect('label')
                tgt = c.next()[1]
                body.append('  %sif ((uint64_t)(%s) == (uint64_t)(%s)) {' % ('' if first else 'else ', v, cv))
                self.edge(tgt, body, '    ')
                body.append('  }')
                first = False
            body.append('  %s{' % ('' if first else 'else '))
            self.edge(dflt, body, '    ')
            body.append('  }')
            return
        if op == 'ret':
            ty = parse_type(c)
            rel = '  vp_stack_restore(vp_sp0);' if self.has_alloca_anywhere() else ''
            if self.mod.resolve(ty).k == 'void':
                body.append(rel + '  return;')
            else:
                v = self.parse_value(c, ty)
                if rel:
                    tn = self.tmp(em.ctype(ty), None)
                    body.append('  %s = %s;%s return %s;' % (tn, v, rel, tn))
                else:
                    body.append('  return %s;' % v)
            return
        if op == 'unreachable':
            body.append('  VP_UNREACHABLE(); %s' % self.ret_default())
            return
        if op == 'resume':
            ty, v = self.parse_tv(c)
            rel = '  vp_stack_restore(vp_sp0);' if self.has_alloca_anywhere() else ''
            body.append('  vp_resume(%s.f0);%s %s' % (v, rel, self.ret_default()))
            return
        if op == 'landingpad':
            ty = parse_type(c)
            cleanup = False
            catches = []
            while not c.eof():
                k, v = c.next()
                if v == 'cleanup':
                    cleanup = True
                elif v == 'catch':
                    cty = parse_type(c)
                    cc = Cursor(c.t, self.mod); cc.i = c.i
                    cst = parse_const(cc, cty)
                    c.i = cc.i
                    catches.append(self.em.const_int(cst))
                elif v == 'filter':
                    raise Unsupported('landingpad filter')
            # selector: index (1-based) of the first matching catch clause; 0 for cleanup only.
            chain = ' '.join('if (!vp_s) vp_s = vp_lp_clause(%dUL);' % x for x in catches)
            # the landing pad takes the in-flight exception: clean-up calls made before __cxa_begin_catch / resume must not see it as pending
            body.append('  { uint32_t vp_s = 0; %s %s.f1 = vp_s; %s.f0 = vp_exc_land(); }' % (chain, D, D))
            return
        if op in ('call', 'invoke', 'tail', 'musttail', 'notail'):
            if op in ('tail', 'musttail', 'notail'):
                c.next()
                isinvoke = False
            else:
                isinvoke = (op == 'invoke')
            self.call(c, dst, D, body, isinvoke)
            return
        raise Unsupported('instruction ' + op)

    _has_alloca_any = None

    def has_alloca_anywhere(self):
        if self._has_alloca_any is None:
            self._has_alloca_any = any(re.search(r'= alloca ', s) for (_, ins) in self.f.blocks for s in ins)
        if self._has_alloca_any:
            self.has_alloca = True
        return self._has_alloca_any

    def ret_default(self):
        rel = 'vp_stack_restore(vp_sp0); ' if self.has_alloca_anywhere() else ''
        rt = self.em.ctype(self.f.ret)
        if rt == 'void':
            return rel + 'return;'
        if rt.startswith('struct') or rt == 'vp_u128':
            return '{ %s%s z = {0}; return z; }' % (rel, rt)
        return rel + 'return 0;'

    def sx(self, a, bits):
        if bits == 64:
            return '(int64_t)(%s)' % a
        if bits in (8, 16, 32):
            return '(int64_t)(int%d_t)(%s)' % (bits, a)
        if bits == 1:
            return '(int64_t)(-(int64_t)((%s) & 1))' % a
        return 'vp_sext((uint64_t)(%s), %d)' % (a, bits)

    def load_expr(self, ty, p, order):
        t = self.mod.resolve(ty)
        sz = self.mod.sizeof(t)
        ct = self.em.ctype(ty)
        if t.k in ('int', 'ptr') and sz <= 8:
            if order is None:
                return '(%s)%s(%s, %d)' % (ct, 'vp_ld_lad' if self.memlad else 'vp_ld', p, sz)
            return '(%s)vp_atomic_load(%s, %d, %d)' % (ct, p, sz, ORDER[order])
        if t.k == 'int' and sz == 16 and order is None:
            return 'vp_mk128(vp_ld(%s, 8), vp_ld((%s) + 8, 8))' % (p, p)
        if t.k == 'float':
            if order is None:
                return 'vp_bits2f((uint32_t)vp_ld(%s, 4))' % p
            return 'vp_bits2f((uint32_t)vp_atomic_load(%s, 4, %d))' % (p, ORDER[order])
        if t.k == 'double':
            if order is None:
                return 'vp_bits2d(vp_ld(%s, 8))' % p
            return 'vp_bits2d(vp_atomic_load(%s, 8, %d))' % (p, ORDER[order])
        raise Unsupported('load of ' + repr(t))

    def store_stmt(self, ty, p, v, order):
        t = self.mod.resolve(ty)
        sz = self.mod.sizeof(t)
        if t.k == 'float':
            v = 'vp_f2bits(%s)' % v
        elif t.k == 'double':
            v = 'vp_d2bits(%s)' % v
        elif t.k == 'int' and sz == 16:
            if order is not None:
                raise Unsupported('atomic i128 store')
            return 'vp_st(%s, 8, vp_lo128(%s)); vp_st((%s) + 8, 8, vp_hi128(%s));' % (p, v, p, v)
        elif t.k not in ('int', 'ptr') or sz > 8:
            raise Unsupported('store of ' + repr(t))
        if order is None:
            return '%s(%s, %d, (uint64_t)(%s));' % ('vp_st_lad' if self.memlad else 'vp_st', p, sz, v)
        return 'vp_atomic_store(%s, %d, (uint64_t)(%s), %d);' % (p, sz, v, ORDER[order])

    # ---- calls
    def call(self, c, dst, D, body, isinvoke):
        em = self.em
        self.skip_call_prefix(c)
        rty = parse_type(c)
        fnty = None
        if rty.k == 'func':
            fnty = rty
            rty = fnty.a
        k, v = c.peek()
        callee = None
        callee_expr = None
        if k == 'global':
            c.next()
            callee = v
        elif k == 'local':
            c.next()
            callee_expr = self.lname(v)
            callee_local = v
        else:
            # constant expression callee (bitcast of a function)
            cc = Cursor(c.t, self.mod); cc.i = c.i
            cst = parse_const(cc, PTR)
            c.i = cc.i
            fn = em.const_fn_name(cst)
            if fn is None:
                raise Unsupported('callee constant expression')
            callee = fn
        if callee is not None and callee in self.mod.aliases:
            tgt = em.const_fn_name(self.mod.aliases[callee])
            if tgt is None:
                raise Unsupported('call through alias to non-function ' + callee)
            callee = tgt
        c.expect('(')
        args = []
        argtys = []
        byval = []
        if not c.accept(')'):
            while True:
                aty = parse_type(c)
                attrs = skip_param_attrs(c)
                if aty.k == 'metadata':
                    # metadata argument: skip to next top-level comma
                    depth = 0
                    while True:
                        kk, vv = c.peek()
                        if depth == 0 and vv in (',', ')'):
                            break
                        if vv in ('(', '{', '['):
                            depth += 1
                        elif vv in (')', '}', ']'):
                            depth -= 1
                        c.next()
                    args.append(None)
                    argtys.append(aty)
                else:
                    args.append(self.parse_value(c, aty))
                    argtys.append(aty)
                    if 'byval' in attrs:
                        byval.append((len(args) - 1, attrs['byval']))
                if c.accept(')'):
                    break
                c.expect(',')
        # trailing: attrs, operand bundles, then for invoke: to label %x unwind label %y
        normal = unwind = None
        if isinvoke:
            while not c.eof():
                k, v = c.next()
                if v == 'to':
                    c.expect('label')
                    normal = c.next()[1]
                    c.expect('unwind')
                    c.expect('label')
                    unwind = c.next()[1]
                    break
        for (ai, bty) in byval:
            sz = self.mod.sizeof(bty)
            self.has_alloca = True
            self._has_alloca_any = True
            tn = self.tmp('uint64_t', None)
            body.append('  %s = vp_alloca(%d, 16); vp_memcpy(%s, %s, %d);' % (tn, sz, tn, args[ai], sz))
            args[ai] = tn
        void = self.mod.resolve(rty).k == 'void'
        stmt = None
        if callee is not None:
            name = cid(callee)
            if callee.startswith('@llvm.'):
                stmt = self.intrinsic(callee, args, argtys, rty, D)
                if stmt is None:
                    stmt = ''
            else:
                special = self.special_call(name, args, argtys, rty, D)
                if special is not None:
                    stmt = special
                else:
                    f = self.mod.funcs.get(callee)
                    if f is None:
                        raise Unsupported('call to undeclared ' + callee)
                    em.extern_used[callee] = True
                    nfix = len(f.params)
                    cargs = []
                    for j, a in enumerate(args):
                        if j < nfix:
                            pt = em.ctype(f.params[j][0])
                            at = em.ctype(argtys[j])
                            cargs.append(a if pt == at else '(%s)(%s)' % (pt, a))
                        else:
                            cargs.append('(uint64_t)(%s)' % a)
                    expr = '%s(%s)' % (em.fname(callee), ', '.join(cargs))
                    stmt = ('%s;' % expr) if (void or D is None) else ('%s = %s;' % (D, expr))
        else:
            vs = self.vslot_of(callee_local)
            if vs is not None and self.only_callee_use(callee_local) and self.vobj_of(vs[1]) is not None \
                    and args and self.root_of_expr(args[0]) == self.root_local(self.vobj_of(vs[1])):
                # obj mode: the dispatcher loads the vptr from `this` itself (after concretising `this` on the ladder)
                dn = em.dispatcher(rty, argtys, ('o', vs[0]))
                expr = '%s(%s)' % (dn, ', '.join(['0'] + args))
            elif vs is not None and self.only_callee_use(callee_local):
                dn = em.dispatcher(rty, argtys, ('v', vs[0]))
                expr = '%s(%s)' % (dn, ', '.join([self.lname(vs[1])] + args))
            else:
                dn = em.dispatcher(rty, argtys, vs[0] if vs else None)
                expr = '%s(%s)' % (dn, ', '.join([callee_expr] + args))
            stmt = ('%s;' % expr) if (void or D is None) else ('%s = %s;' % (D, expr))
        if stmt:
            body.append('  ' + stmt)
        if isinvoke:
            body.append('  if (vp_exc_pending()) {')
            self.edge(unwind, body, '    ')
            body.append('  }')
            self.edge(normal, body, '  ')
        else:
            # a plain call to a function that may have thrown: propagate by returning
            if not (callee is not None and (callee.startswith('@llvm.') or self.nothrow(callee))):
                body.append('  if (vp_exc_pending()) { %s }' % self.ret_default())

    def nothrow(self, callee):
        n = cid(callee)
        return n.startswith('vp_') and n not in ('vp_throw',)

    def vslot_of(self, local):
        """If %local = load F*, F** %p where %p = gep %vt, i64 K and %vt loaded as vtable pointer -> K."""
        d = self.defs.get(local)
        if not d or not d.startswith('load '):
            return None
        m = re.search(r',\s*[^,]*\*\s*(%[-\w.$"]+)\s*(,|$)', d)
        if not m:
            return None
        p = m.group(1)
        pd = self.defs.get(p)
        if pd is None:
            return None
        if pd.startswith('getelementptr'):
            mm = re.search(r'(%[-\w.$"]+), i64 (\d+)\s*$', pd.split(', !')[0])
            if not mm:
                return None
            vt = mm.group(1)
            slot = int(mm.group(2))
        elif pd.startswith('load '):
            # %p itself is the vptr load
            return (0, p) if self.is_vptr_load(pd) else None
        else:
            return None
        vd = self.defs.get(vt)
        if vd and self.is_vptr_load(vd):
            return (slot, vt)
        return None

    def use_count(self, local):
        self.only_callee_use('%__none__')
        return self._usecount.get(local, 0)

    def vobj_of(self, vptr_local):
        """%vptr = load F**, F*** %x with %x = bitcast %obj (or %obj itself); returns %obj if the vptr feeds only the slot
        computation, else None."""
        d = self.defs.get(vptr_local)
        if not d or self.use_count(vptr_local) != 2:
            return None
        m = re.search(r'\*\*\*\s*(%(?:"[^"]*"|[-\w.$]+))', d)
        if not m:
            return None
        x = m.group(1)
        xd = self.defs.get(x)
        if xd and xd.startswith('bitcast '):
            mm = re.match(r'bitcast \S.*?(%(?:"[^"]*"|[-\w.$]+)) to ', xd)
            if mm:
                return mm.group(1)
            return None
        return x

    def root_local(self, local):
        """follows bitcasts and all-zero-index GEPs (base-class sub-object at offset 0) back to the underlying SSA value"""
        seen = 0
        while seen < 8:
            d = self.defs.get(local)
            if not d:
                return local
            if d.startswith('bitcast '):
                mm = re.match(r'bitcast \S.*?(%(?:"[^"]*"|[-\w.$]+)) to ', d)
            elif d.startswith('getelementptr '):
                mm = re.match(r'getelementptr (?:inbounds )?.*?(%(?:"[^"]*"|[-\w.$]+))((?:, i(?:32|64) 0)+)\s*$', d)
                if mm and ('%' in d[mm.end(1):]):
                    mm = None
            else:
                mm = None
            if not mm:
                return local
            local = mm.group(1)
            seen += 1
        return local

    def is_stack_ptr(self, cexpr):
        """True if the C expression names an SSA value derived (bitcast / any GEP) from an alloca of this function"""
        if not hasattr(self, '_rev'):
            self._rev = {self.lname(n): n for n in self.types}
        local = self._rev.get(cexpr)
        seen = 0
        while local and seen < 12:
            d = self.defs.get(local)
            if not d:
                return False
            if d.startswith('alloca '):
                return True
            mm = None
            if d.startswith('bitcast '):
                mm = re.match(r'bitcast \S.*?(%(?:"[^"]*"|[-\w.$]+)) to ', d)
            elif d.startswith('getelementptr '):
                mm = re.match(r'getelementptr (?:inbounds )?[^%@]*?(%(?:"[^"]*"|[-\w.$]+))', d)
            if not mm:
                return False
            local = mm.group(1)
            seen += 1
        return False

    def plain_sync(self, p, body):
        """opts['sync_plain_funcs']: in the named functions every PLAIN access to non-stack memory is a schedule point of the
        sequentialised (Tier A) schedules, so check-then-act windows that contain no atomic operation are explored too"""
        if self.syncplain and not self.is_stack_ptr(p):
            body.append('  vp_sync_point();')

    def root_of_expr(self, cexpr):
        if not hasattr(self, '_rev'):
            self._rev = {self.lname(n): n for n in self.types}
        n = self._rev.get(cexpr)
        return self.root_local(n) if n else None

    def is_suppressed_vptr_load(self, dst):
        """vptr load that only feeds an obj-mode virtual call."""
        if not self.is_vptr_load(self.defs.get(dst, '')) or self.vobj_of(dst) is None:
            return False
        # find the function pointer load that uses it and the call that uses that
        for name, d in self.defs.items():
            if d.startswith('load ') and self.vslot_of(name) is not None and self.vslot_of(name)[1] == dst:
                if not self.only_callee_use(name):
                    return False
                rx = re.compile(r'(call|invoke)\b[^@]*?' + re.escape(name) + r'\(\s*(.*)$')
                for (_, instrs) in self.f.blocks:
                    for ins in instrs:
                        m = rx.search(ins)
                        if m:
                            # first argument must be the object
                            am = re.search(r'(%(?:"[^"]*"|[-\w.$]+))\s*(,|\))', m.group(2))
                            return bool(am) and self.root_local(am.group(1)) == self.root_local(self.vobj_of(dst))
        return False

    def only_callee_use(self, local):
        """True if %local is used exactly once in the function, as the callee of a call/invoke."""
        if not hasattr(self, '_usecount'):
            self._usecount = {}
            rx = re.compile(r'%(?:"[^"]*"|[-\w.$]+)')
            for (_, instrs) in self.f.blocks:
                for ins in instrs:
                    for m in rx.finditer(ins):
                        self._usecount[m.group(0)] = self._usecount.get(m.group(0), 0) + 1
        if self._usecount.get(local, 0) != 2:  # definition + one use
            return False
        rx = re.compile(r'(call|invoke)\b[^@]*?' + re.escape(local) + r'\(')
        for (_, instrs) in self.f.blocks:
            for ins in instrs:
                if rx.search(ins):
                    return True
        return False

    def is_vptr_load(self, d):
        # a load whose result type is a pointer to pointer to function: "load RET (ARGS)**, RET (ARGS)*** %x"
        return d.startswith('load ') and re.search(r'\)\*\*, ', d) is not None

    def intrinsic(self, callee, args, argtys, rty, D):
        n = callee[1:]
        if n.startswith(INTRINSIC_NOP):
            return None
        if n.startswith('llvm.memcpy') or n.startswith('llvm.memmove'):
            return 'vp_memcpy(%s, %s, (uint64_t)(%s));' % (args[0], args[1], args[2])
        if n.startswith('llvm.memset'):
            return 'vp_memset(%s, (uint8_t)(%s), (uint64_t)(%s));' % (args[0], args[1], args[2])
        if n == 'llvm.trap':
            return 'VP_FAIL("llvm.trap reached");'
        if n.startswith('llvm.expect') or n.startswith('llvm.launder') or n.startswith('llvm.strip'):
            return '%s = %s;' % (D, args[0])
        m = re.match(r'llvm\.(umax|umin|smax|smin)\.i(\d+)', n)
        if m:
            o, bits = m.group(1), int(m.group(2))
            a, b = args
            if o[0] == 'u':
                cmp = '(uint64_t)(%s) %s (uint64_t)(%s)' % (a, '>' if o == 'umax' else '<', b)
            else:
                cmp = '%s %s %s' % (self.sx(a, bits), '>' if o == 'smax' else '<', self.sx(b, bits))
            return '%s = (%s) ? (%s) : (%s);' % (D, cmp, a, b)
        m = re.match(r'llvm\.(uadd|usub|umul|sadd|ssub|smul)\.with\.overflow\.i(\d+)', n)
        if m:
            o, bits = m.group(1), int(m.group(2))
            return '{ struct vp_ov_res vp_r = vp_%s_ov(%s, %s, %d); %s.f1 = vp_r.ov; %s.f0 = vp_r.v; }' % (o, args[0], args[1], bits, D, D)
        m = re.match(r'llvm\.(ctpop|ctlz|cttz|bswap|abs)\.i(\d+)', n)
        if m:
            return '%s = vp_%s((uint64_t)(%s), %d);' % (D, m.group(1), args[0], int(m.group(2)))
        m = re.match(r'llvm\.(fshl|fshr)\.i(\d+)', n)
        if m:
            return '%s = vp_%s((uint64_t)(%s), (uint64_t)(%s), (uint64_t)(%s), %d);' % (D, m.group(1), args[0], args[1], args[2], int(m.group(2)))
        if n.startswith('llvm.fabs.'):
            return '%s = ((%s) < 0 ? -(%s) : (%s));' % (D, args[0], args[0], args[0])
        if n.startswith('llvm.eh.typeid.for'):
            return '%s = vp_typeid_for(%s);' % (D, args[0])
        if n.startswith('llvm.stacksave'):
            return '%s = vp_stack_save();' % D
        if n.startswith('llvm.stackrestore'):
            return 'vp_stack_restore(%s);' % args[0]
        if n.startswith('llvm.objectsize'):
            return '%s = ~0UL;' % D
        if n.startswith('llvm.is.constant'):
            return '%s = 0;' % D
        raise Unsupported('intrinsic ' + n)

    def string_at(self, expr):
        """If expr is a constant address inside a constant byte-array global, returns the C string."""
        try:
            a = int(expr.rstrip('UL'))
        except ValueError:
            return None
        for g in self.mod.order:
            if g.addr <= a < g.addr + g.size and g.init is not None and g.init.k == 'bytes':
                b = g.init.v[a - g.addr:]
                z = b.find(b'\0')
                if z >= 0:
                    b = b[:z]
                return b.decode('latin1')
        return None

    def special_call(self, name, args, argtys, rty, D):
        if name == 'vp_assert':
            msg = self.string_at(args[1]) or 'vp_assert'
            msg = re.sub(r'[^-\w .:=<>()\[\],/+*!]', '_', msg)
            return 'VP_ASSERT(%s, "%s");' % (args[0], msg)
        if name == 'vp_reach':
            msg = self.string_at(args[0]) or 'reach'
            msg = re.sub(r'[^-\w .:=<>()\[\],/+*!]', '_', msg)
            return 'VP_REACH("%s");' % msg
        return None


def translate(text, opts=None):
    mod = parse_module(text)
    em = Emitter(mod, opts)
    code = em.run()
    info = {
        'functions': sorted(cid(n) for n, f in mod.funcs.items() if f.defined),
        'functions_pruned_unreachable': sum(1 for f in mod.funcs.values() if getattr(f, 'pruned', False)),
        'externals': sorted(cid(n) for n in em.extern_used if not mod.funcs[n].defined),
        'globals_end': em.globals_end,
    }
    return code, info


if __name__ == '__main__':
    import json
    src = open(sys.argv[1]).read()
    try:
        code, info = translate(src)
    except Unsupported as e:
        sys.stderr.write('UNSUPPORTED: %s\n' % e)
        sys.exit(2)
    open(sys.argv[2], 'w').write(code)
    if len(sys.argv) > 3:
        json.dump(info, open(sys.argv[3], 'w'), indent=1)
