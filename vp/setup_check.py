#!/usr/bin/env python3
"""setup: nothing to build (python + installed tools only); verifies the tools the checks need are present."""
import shutil, sys
missing = [t for t in ('clang++-14', 'llvm-link-14', 'cbmc', 'goto-cc', 'g++') if shutil.which(t) is None]
if missing:
    print('missing tools:', missing); sys.exit(1)
print('ok')
