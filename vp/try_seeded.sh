#!/bin/bash
# try_seeded.sh <patch.diff> <check-id>... : apply a seeded change to /repo, run the checks, undo it straight afterwards.
set -u
P=$1; shift
cd /repo || exit 9
git diff --quiet || { echo "repo dirty"; exit 9; }
git apply "$P" || { echo "patch does not apply"; exit 9; }
for c in "$@"; do
  (cd /verif && timeout 1500 python3 vp/check.py $c 2>&1 | tail -4 | cut -c1-260; echo "exit=$?")
done
git -C /repo checkout -- .
git -C /repo status --short
