#!/usr/bin/env python3
"""check.py <property-id> [--tier quick|thorough]   -- generic runner.

checks/<id>.py provides  plan(tier, seed, ctx) -> dict with
  modules : {name: [ (src, cfg, extra_flags, prefix) ... ]}
  queries : [ {name, module, main (C text), defines, unwind, unwindset, timeout, words, mem_gb, extra, sample} ... ]
  meta    : {rule, assumptions[], bounds{}, stubs[], explanation, functions_filter(regex)}
  replay  : optional callable(query, violation, inputs, ctx) -> (confirmed: bool|None, text)
Exit: 0 held on everything explored / 1 VIOLATION (new finding) / 2 inconclusive (no verdict; never reported as pass).
"""
import argparse
import importlib
import json
import os
import re
import shutil
import sys
import time

HERE = os.path.dirname(os.path.abspath(__file__))
sys.path.insert(0, HERE)
sys.path.insert(0, os.path.dirname(HERE))
import core  # noqa: E402


def main():
    ap = argparse.ArgumentParser()
    ap.add_argument('pid')
    ap.add_argument('--tier', default=os.environ.get('VERIF_TIER', 'quick'))
    ap.add_argument('--only', default=None, help='regex on query names (development)')
    ap.add_argument('--keep', action='store_true')
    ap.add_argument('--workers', type=int, default=int(os.environ.get('VP_WORKERS', '14')))
    args = ap.parse_args()
    pid = args.pid
    tier = args.tier if args.tier in ('quick', 'thorough') else 'quick'
    seed = int(os.environ.get('VERIF_SEED', '1') or 1)
    t0 = time.time()
    outdir = os.path.join(core.BUILD, pid + '_' + tier)
    shutil.rmtree(outdir, ignore_errors=True)
    os.makedirs(outdir)
    mod = importlib.import_module('checks.' + pid)
    ctx = {'outdir': outdir, 'tier': tier, 'seed': seed, 'pid': pid}
    inconclusive = []
    try:
        plan = mod.plan(tier, seed, ctx)
    except core.Inconclusive as e:
        plan = None
        inconclusive.append('plan: ' + str(e))
    results = []
    modules = {}
    queries = []
    if plan:
        # ---- build modules
        def build(item):
            name, parts = item
            try:
                parts = [tuple(list(p) + [(), None][len(p) - 2:]) if len(p) < 4 else p for p in parts]
                return name, core.Module(name, parts, outdir, copies=plan.get('module_copies', {}).get(name), ir2c_opts=plan.get('ir2c_opts', {}).get(name)).build(), None
            except core.Inconclusive as e:
                return name, None, str(e)
        for name, m, err in core.parallel(list(plan['modules'].items()), build, args.workers):
            if err:
                inconclusive.append('module %s: %s' % (name, err))
            else:
                modules[name] = m
        queries = plan['queries']
        if args.only:
            queries = [q for q in queries if re.search(args.only, q['name'])]
        mopts = plan.get('module_opts', {})

        def link(name):
            m = modules[name]
            mains = '\n'.join(q['main'] for q in plan['queries'] if q['module'] == name)
            try:
                m.link_goto(mains, **mopts.get(name, {}))
                return name, None
            except core.Inconclusive as e:
                return name, str(e)
        for name, err in core.parallel(list(modules), link, args.workers):
            if err:
                inconclusive.append('module %s: %s' % (name, err))

        def runq(q):
            m = modules.get(q['module'])
            if m is None:
                r = core.QueryResult()
                r.status = 'inconclusive'
                r.inconclusive.append('module not built')
                return r
            qdir = os.path.join(outdir, 'q')
            return core.run_cbmc(q['name'], m.gb, q.get('entry', q['name']), qdir, unwind=q.get('unwind', 8),
                                 unwindset=q.get('unwindset', ()), timeout=q.get('timeout', 300),
                                 mem_gb=q.get('mem_gb', 12), extra=q.get('extra', ()), words=m.words, witness=q.get('witness', 'all'))
        results = core.parallel(queries, runq, args.workers) if not inconclusive else []
    # ---- schedules that the model prunes as infeasible (e.g. the inner unit would have to block): a vacuous query is accepted
    #      only if it declares a family and another query of that family is decided non-vacuously
    fam_ok = set(q.get('family') for q, r in zip(queries, results) if r.status == 'ok' and q.get('family'))
    n_infeasible = 0
    for q, r in zip(queries, results):
        if r.vacuous and q.get('family') in fam_ok and len(r.inconclusive) == 1 and not r.violations:
            r.status = 'infeasible'
            r.inconclusive = []
            n_infeasible += 1
    # ---- classify
    known, fixed = core.load_known_findings()
    violations = []  # (query, propid, desc)
    for q, r in zip(queries, results):
        for (cp, desc) in r.violations:
            violations.append((q, r, cp, desc))
        for why in r.inconclusive:
            inconclusive.append('%s: %s' % (q['name'], why))
    new_viol = []
    known_hits = []
    for (q, r, cp, desc) in violations:
        key = '%s | %s' % (q['name'], desc)
        hit = None
        for (kp, kkey, ktext) in known:
            if kp == pid and kkey in key:
                hit = (kkey, ktext)
                break
        if hit:
            known_hits.append((key, hit))
        else:
            new_viol.append((q, r, cp, desc, key))
    # ---- counterexamples: trace + replay for new violations (one per distinct (query, assertion))
    replay_dir = os.path.join(core.ROOT, 'replays')
    replays = []
    seen = set()
    for (q, r, cp, desc, key) in new_viol:
        if key in seen:
            continue
        seen.add(key)
        if len(seen) > 12:
            break
        os.makedirs(replay_dir, exist_ok=True)
        m = modules[q['module']]
        qdir = os.path.join(outdir, 'q')
        tr = core.run_cbmc(q['name'] + '.' + re.sub(r'\W', '_', cp)[-40:], m.gb, q.get('entry', q['name']), qdir,
                           unwind=q.get('unwind', 8), unwindset=q.get('unwindset', ()),
                           timeout=q.get('timeout', 300), mem_gb=q.get('mem_gb', 12), extra=q.get('extra', ()),
                           words=m.words, trace_prop=cp)
        inputs = core.trace_inputs(tr.log) if tr.log else []
        confirmed, text = None, 'no native replay defined for this query'
        if plan.get('replay'):
            try:
                confirmed, text = plan['replay'](q, (cp, desc), inputs, ctx)
            except Exception as e:  # replay machinery failure never hides the solver verdict
                confirmed, text = None, 'replay failed to run: %r' % e
        rp = os.path.join(replay_dir, '%s_%s.txt' % (pid, re.sub(r'\W+', '_', key)[:120]))
        with open(rp, 'w') as f:
            f.write('property: %s\nquery: %s\nassertion: %s\ncbmc property id: %s\n' % (pid, q['name'], desc, cp))
            f.write('harness nondet inputs (in call order): %s\n' % inputs)
            f.write('native replay confirmed: %s\n%s\n' % (confirmed, text))
            f.write('cbmc command: %s\n\n--- cbmc trace (tail) ---\n' % tr.cmd)
            if tr.log and os.path.exists(tr.log):
                f.write(open(tr.log, errors='replace').read()[-20000:])
        replays.append((key, rp, confirmed))
    # ---- evidence
    meta = plan['meta'] if plan else {}
    n_ok = sum(1 for r in results if r.status == 'ok')
    funcs = set()
    externals = set()
    for m in modules.values():
        funcs.update(m.info['functions'])
        externals.update(m.info['externals'])
    ff = meta.get('functions_filter')
    shown = sorted(f for f in funcs if (re.search(ff, f) if ff else True))
    samples = []
    for q, r in list(zip(queries, results))[:6]:
        samples.append({'query': q['name'], 'what': q.get('sample', ''), 'verdict': r.status, 'cbmc_properties': len(r.props),
                        'witnesses_reached': r.witness_reached, 'stats': r.stats, 'wall_s': round(r.wall_s, 2),
                        'max_rss_mb': r.max_rss_mb})
    obligations = sum(len([p for p in r.props if not p[1].startswith('WITNESS')]) for r in results)
    discharged = sum(len([p for p in r.props if not p[1].startswith('WITNESS') and p[2] == 'SUCCESS']) for r in results)
    ev = {
        'property_id': pid, 'tier': tier, 'seed': seed, 'level': 'model_checking',
        'coverage': {
            'evaluations': len(results),
            'distinct_nontrivial': n_ok,
            'rule': meta.get('rule', '') + ' A query counts as non-trivial only if every vacuity witness in it was reached '
                    '(FAILED assert(0) twin) and all its other properties were decided SUCCESS by the solver.',
            'samples': samples,
            'obligations': obligations, 'discharged': discharged,
            'witnesses_reached': sum(r.witness_reached for r in results),
            'queries_ok': n_ok, 'queries_infeasible_schedule': n_infeasible, 'queries_violation': sum(1 for r in results if r.status == 'violation'),
            'queries_inconclusive': sum(1 for r in results if r.status in ('inconclusive', 'error')),
            'inconclusive': inconclusive[:20],
            'functions_encoded_count': len(funcs), 'functions_encoded': shown[:400],
            'externals_modelled': sorted(externals),
            'bounds': meta.get('bounds', {}), 'stubs': meta.get('stubs', []),
            'solver': {'engine': 'cbmc 6.11 (built-in SAT, MiniSat2)', 'total_solver_s': round(sum(r.stats.get('solver_s', 0) for r in results), 2),
                       'total_query_wall_s': round(sum(r.wall_s for r in results), 2),
                       'max_rss_mb': max([r.max_rss_mb for r in results] or [0]),
                       'ssa_steps': sum(r.stats.get('steps', 0) for r in results)},
            'module_build_s': {k: round(m.build_s, 2) for k, m in modules.items()},
            'module_sizes': {k: {'ir_lines': m.info['ir_lines'], 'c_lines': m.info['c_lines']} for k, m in modules.items()},
            'known_findings_hit': [k for k, _ in known_hits],
            'explanation': meta.get('explanation', ''),
            'exhaustive': False,
            'checker_cmd': 'python3 vp/check.py %s --tier %s' % (pid, tier),
            'trusted_base': ['clang 14 -O1 IR as the meaning of the source', 'vp/ir2c.py translation', 'rt/vp_rt.c memory/atomics/exception model', 'cbmc 6.11 + MiniSat'],
        },
        'assumptions': meta.get('assumptions', []),
        'wall_s': round(time.time() - t0, 2),
        'violations': len(seen),
    }
    if plan and plan.get('post'):
        try:
            plan['post'](ev, queries, results, ctx)
        except core.Inconclusive as e:
            inconclusive.append('post: ' + str(e))
            ev['coverage']['inconclusive'] = inconclusive[:20]
    ev['wall_s'] = round(time.time() - t0, 2)
    core.write_evidence(pid, ev)
    # ---- report
    for key, (kkey, ktext) in sorted(set(known_hits)):
        pass
    for kkey, ktext in sorted(set(h for _, h in known_hits)):
        print('KNOWN-FINDING: property=%s %s' % (pid, ktext))
    print('%s %s: %d queries, %d ok, %d violation, %d inconclusive, %.1fs' % (
        pid, tier, len(results), n_ok, ev['coverage']['queries_violation'], ev['coverage']['queries_inconclusive'], time.time() - t0))
    if replays:
        for key, rp, confirmed in replays:
            print('  counterexample: %s (native replay confirmed=%s)' % (key, confirmed))
        print('VIOLATION property=%s replay=%s' % (pid, replays[0][1]))
        if not args.keep:
            shutil.rmtree(outdir, ignore_errors=True)
        sys.exit(1)
    if inconclusive:
        for w in inconclusive[:15]:
            print('  INCONCLUSIVE: ' + w[:600])
        sys.exit(2)
    if not args.keep:
        shutil.rmtree(outdir, ignore_errors=True)
    sys.exit(0)


if __name__ == '__main__':
    main()
