#!/bin/bash
# confirm_seeded.sh : in a scratch worktree (/tmp/sw) build the test suite once, then for each seeded patch: apply, rebuild, ctest, revert.
cd /repo && git worktree add -f /tmp/sw HEAD -q
cd /tmp/sw && cmake -G Ninja -S . -B _b -DYACLIB_TEST=ON -DCMAKE_BUILD_TYPE=RelWithDebInfo > /tmp/sw_cfg.log 2>&1 && cmake --build _b -j 12 > /tmp/sw_build0.log 2>&1
echo "baseline build rc=$?"
for d in /verif/seeded/*/; do
  id=$(basename $d)
  [ -f $d/ctest.txt ] && continue
  git -C /tmp/sw checkout -- . && git -C /tmp/sw apply $d/patch.diff || { echo "$id: patch does not apply"; continue; }
  cmake --build _b -j 12 > /tmp/sw_build_$id.log 2>&1; brc=$?
  ctest --test-dir _b -j8 --timeout 900 2>&1 | tail -3 > $d/ctest.txt
  echo "$id: build rc=$brc; $(grep 'tests passed' $d/ctest.txt)"
  git -C /tmp/sw checkout -- .
done
