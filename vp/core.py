"""core.py -- build + solve + evidence plumbing shared by all checks.

Pipeline per query (everything regenerated from /repo's working tree on every run):
  src/config.hpp.in -> config.hpp (per configuration) ; clang++-14 -O1 -S -emit-llvm (harness TU + library TUs)
  -> llvm-link -> ir2c.py -> module.c ; cbmc module.c main.c rt/vp_rt.c -> per-property verdicts.
"""
import concurrent.futures as cf
import hashlib
import json
import os
import re
import resource
import shutil
import subprocess
import sys
import time

HERE = os.path.dirname(os.path.abspath(__file__))
ROOT = os.path.dirname(HERE)
REPO = os.environ.get('VP_REPO', '/repo')
BUILD = os.path.join(ROOT, 'build')
RT = os.path.join(ROOT, 'rt')
sys.path.insert(0, HERE)
import ir2c  # noqa: E402

CLANG = 'clang++-14'
LLVM_LINK = 'llvm-link-14'

CFGS = {
    # name: (std, YACLIB_FAULT, CORO_NEED, SYMMETRIC_TRANSFER)
    'prod17': ('c++17', 0, 0, 1),
    'prod20': ('c++20', 0, 0, 1),
    'coro20': ('c++20', 0, 1, 1),
    'coro20nst': ('c++20', 0, 1, 0),
    'thread17': ('c++17', 1, 0, 1),
    'thread20': ('c++20', 1, 0, 1),
    'fiber17': ('c++17', 2, 0, 1),
    'fiber20': ('c++20', 2, 0, 1),
}


class Inconclusive(Exception):
    pass


def sh(cmd, **kw):
    return subprocess.run(cmd, stdout=subprocess.PIPE, stderr=subprocess.STDOUT, text=True, **kw)


def gen_config(cfg, outdir):
    std, fault, coro, st = CFGS[cfg]
    d = os.path.join(outdir, 'cfg_' + cfg, 'yaclib')
    os.makedirs(d, exist_ok=True)
    txt = open(os.path.join(REPO, 'src/config.hpp.in')).read()
    sub = {'YACLIB_ASAN': 0, 'YACLIB_TSAN': 0, 'YACLIB_MEMSAN': 0, 'YACLIB_UBSAN': 0, 'YACLIB_FAULT': fault,
           'YACLIB_COVERAGE': 0, 'YACLIB_CORO_NEED': coro, 'YACLIB_SYMMETRIC_TRANSFER': st,
           'YACLIB_FINAL_SUSPEND_TRANSFER': st, 'YACLIB_FUTEX': 0}
    for k, v in sub.items():
        txt = txt.replace('${%s}' % k, str(v))
    if '${' in txt:
        raise Inconclusive('config.hpp.in has an unknown substitution: ' + re.search(r'\$\{\w+\}', txt).group(0))
    p = os.path.join(d, 'config.hpp')
    open(p, 'w').write(txt)
    return os.path.dirname(d)


def clang_flags(cfg, cfgdir, extra=()):
    std = CFGS[cfg][0]
    return ['-std=' + std, '-O1', '-fno-vectorize', '-fno-slp-vectorize', '-fno-unroll-loops', '-DNDEBUG',
            '-fno-rtti', '-Wno-everything', '-mllvm', '-simplifycfg-sink-common=false'] + list(extra) + ['-I' + os.path.join(REPO, 'include'), '-I' + os.path.join(REPO, 'src'),
            '-I' + cfgdir, '-I' + os.path.join(ROOT, 'harness')]   # extra first: a model_include directory must shadow the repo's header


def compile_ll(src, cfg, outdir, extra=(), tag=''):
    cfgdir = gen_config(cfg, outdir)
    out = os.path.join(outdir, re.sub(r'[^\w]', '_', os.path.relpath(src, '/')) + '.' + cfg + tag + '.ll')
    r = sh([CLANG] + clang_flags(cfg, cfgdir, extra) + ['-S', '-emit-llvm', src, '-o', out])
    if r.returncode != 0:
        raise Inconclusive('clang failed on %s [%s]:\n%s' % (src, cfg, r.stdout[-3000:]))
    return out


def prefix_module(ll_path, prefix):
    """Renames every locally-defined non-external symbol (linkonce_odr/weak_odr/internal/private) so that modules built in
    different configurations can be linked without ODR merging of config-dependent inline functions."""
    txt = open(ll_path).read()
    names = set()
    for m in re.finditer(r'^(?:define|@)[^\n]*', txt, re.M):
        line = m.group(0)
        if line.startswith('define'):
            mm = re.match(r'define\s+(linkonce_odr|weak_odr|internal|private|linkonce|weak)\b[^@]*(@(?:"[^"]*"|[-\w.$]+))', line)
        else:
            mm = re.match(r'(@(?:"[^"]*"|[-\w.$]+))\s*=\s*(linkonce_odr|weak_odr|internal|private|linkonce|weak)\b', line)
            if mm:
                mm = re.match(r'(?P<x>)(@(?:"[^"]*"|[-\w.$]+))', line)
        if mm:
            names.add(mm.group(2))

    def rep(m):
        n = m.group(0)
        if n in names:
            if n.startswith('@"'):
                return '@"' + prefix + n[2:]
            return '@' + prefix + n[1:]
        return n
    txt = re.sub(r'@(?:"[^"]*"|[-\w.$]+)', rep, txt)
    # comdat names follow their symbols
    def rep2(m):
        n = '@' + m.group(0)[1:]
        if n in names:
            return '$' + (('"' + prefix + n[2:]) if n.startswith('@"') else (prefix + n[1:]))
        return m.group(0)
    txt = re.sub(r'\$(?:"[^"]*"|[-\w.$]+)', rep2, txt)
    out = ll_path[:-3] + '.pfx.ll'
    open(out, 'w').write(txt)
    return out


def suffix_all_defined(ll_path, suffix, out):
    """A copy of a linked module in which EVERY symbol it defines (functions, globals, aliases; any linkage) carries `suffix`:
    two such copies linked together are two separate processes (each with its own statics) inside one encoding.
    Declarations (runtime, libc, libstdc++ externals) stay shared."""
    txt = open(ll_path).read()
    names = set()
    for m in re.finditer(r'^define\b[^@\n]*(@(?:"[^"]*"|[-\w.$]+))\s*\(', txt, re.M):
        names.add(m.group(1))
    for m in re.finditer(r'^(@(?:"[^"]*"|[-\w.$]+))\s*=', txt, re.M):
        names.add(m.group(1))
    names = {n for n in names if not n.lstrip('@"').startswith('llvm.')}

    def ren(n):
        return n[:-1] + suffix + '"' if n.endswith('"') else n + suffix

    def rep(m):
        n = m.group(0)
        return ren(n) if n in names else n
    txt = re.sub(r'@(?:"[^"]*"|[-\w.$]+)', rep, txt)

    def rep2(m):
        n = '@' + m.group(0)[1:]
        return '$' + ren(n)[1:] if n in names else m.group(0)
    txt = re.sub(r'\$(?:"[^"]*"|[-\w.$]+)', rep2, txt)
    open(out, 'w').write(txt)
    return out


def link_ll(lls, out):
    r = sh([LLVM_LINK, '-S'] + lls + ['-o', out])
    if r.returncode != 0:
        raise Inconclusive('llvm-link failed:\n' + r.stdout[-3000:])
    return out


def translate(ll, cfile, opts=None):
    try:
        code, info = ir2c.translate(open(ll).read(), opts)
    except ir2c.Unsupported as e:
        raise Inconclusive('ir2c: ' + str(e))
    open(cfile, 'w').write(code)
    return info


class Module:
    """A translated module: harness TU(s) + library TUs -> one C file."""

    def __init__(self, name, parts, outdir, copies=None, ir2c_opts=None):
        """parts: list of (src, cfg, extra_flags, prefix or None); copies: symbol suffixes -> the whole module is instantiated once per suffix"""
        self.name = name
        self.parts = parts
        self.copies = copies
        self.ir2c_opts = ir2c_opts
        self.outdir = os.path.join(outdir, name)
        self.cfile = None
        self.info = None
        self.build_s = 0.0

    def build(self):
        t0 = time.time()
        os.makedirs(self.outdir, exist_ok=True)
        lls = []
        for i, part in enumerate(self.parts):
            src, cfg, extra, pfx = (list(part) + [None, None])[:4]
            if not os.path.isabs(src):
                src = os.path.join(REPO, src) if os.path.exists(os.path.join(REPO, src)) else os.path.join(ROOT, src)
            ll = compile_ll(src, cfg, self.outdir, extra or (), tag='.%d' % i)
            if pfx:
                ll = prefix_module(ll, pfx)
            lls.append(ll)
        linked = link_ll(lls, os.path.join(self.outdir, 'module.ll'))
        if self.copies:
            cps = [suffix_all_defined(linked, sfx, os.path.join(self.outdir, 'module%s.ll' % sfx)) for sfx in self.copies]
            linked = link_ll(cps, os.path.join(self.outdir, 'module_copies.ll'))
        self.cfile = os.path.join(self.outdir, 'module.c')
        self.info = translate(linked, self.cfile, self.ir2c_opts)
        self.info['ir_lines'] = sum(1 for _ in open(linked))
        self.info['c_lines'] = sum(1 for _ in open(self.cfile))
        self.info['sources'] = [p[0] for p in self.parts]
        self.build_s = time.time() - t0
        return self

    def link_goto(self, mains_text, defines=(), nthreads=1, heap=8192, stack=8192, scalar_mem=False, preempt=False, hb=False):
        """module.c + all query entry functions + runtime -> one goto binary (parsed once, queried many times)."""
        t0 = time.time()
        mains = os.path.join(self.outdir, 'mains.c')
        if preempt and 'void vp_unit_run(int' not in mains_text:
            mains_text = 'void vp_unit_run(int u) {}\n' + mains_text
        if preempt and 'void vp_unit_b(void)' not in mains_text:
            mains_text = 'void vp_unit_b(void) {}\n' + mains_text
        pre = '#include "vp_rt.h"\nextern int vp_pre_enabled, vp_pre_k, vp_pre_count, vp_pre_ran, vp_spurious_cfg, vp_spurious_at, vp_timeout_at;\nextern int vp2_enabled, vp2_nunits, vp2_u_ctx[4], vp2_u_k[4], vp2_u_ran[4], vp2_cnt[5];\nvoid vp2_run_rest(void); void vp_thread_body(uint32_t);\nvoid vp_run_pending_unit(void);\n'
        mains_text = mains_text.replace('vp_pre_enabled = 1;', 'vp_pre_enabled = 1; vp_hb_fork();').replace('vp2_enabled = 1;', 'vp2_enabled = 1; vp_hb_fork();')
        open(mains, 'w').write(pre + mains_text)
        arena = (self.info['globals_end'] + 63) // 64 * 64
        need = arena + nthreads * (heap + stack)
        words = 64
        while words * 8 < need:
            words *= 2
        self.words = words
        self.defines = ['VP_WORDS=%d' % words, 'VP_ARENA_BASE=%dUL' % arena, 'VP_NTHREADS=%d' % nthreads,
                        'VP_HEAP_BYTES=%dUL' % heap, 'VP_STACK_BYTES=%dUL' % stack, 'VP_CBMC=1'] + list(defines)
        if preempt:
            self.defines.append('VP_PREEMPT=1')
        if scalar_mem:
            h = ['/* generated: scalar memory backend, %d words */' % words]
            h.append('uint64_t ' + ', '.join('VP_S%d' % i for i in range(words)) + ';')
            h.append('static inline uint64_t vp_rdw(uint64_t i) {')
            h += ['  if (i == %d) return VP_S%d;' % (i, i) for i in range(words)]
            h.append('  return 0;\n}')
            h.append('static inline void vp_wrw(uint64_t i, uint64_t v) {')
            # no early return: merging 128 early-return states costs O(n^2) phi assignments per symbolic write
            h += ['  if (i == %d) VP_S%d = v;' % (i, i) for i in range(words)]
            h.append('}')
            if hb:
                h.append('uint32_t ' + ', '.join('VP_H%d' % i for i in range(words)) + ';')
                h.append('static inline uint32_t vp_hrd(uint64_t i) {')
                h += ['  if (i == %d) return VP_H%d;' % (i, i) for i in range(words)]
                h.append('  return 0;\n}')
                h.append('static inline void vp_hwr(uint64_t i, uint32_t v) {')
                h += ['  if (i == %d) VP_H%d = v;' % (i, i) for i in range(words)]
                h.append('}')
                self.defines.append('VP_HB=1')
            open(os.path.join(self.outdir, 'vp_scalar_mem.h'), 'w').write('\n'.join(h) + '\n')
            self.defines.append('VP_SCALAR_MEM=1')
        elif hb:
            self.defines.append('VP_HB=1')   # sequentialised schedules: array shadow inside rt/vp_rt.c
        self.gb = os.path.join(self.outdir, 'module.gb')
        cmd = ['goto-cc', '-I' + RT, '-I' + self.outdir, '-o', self.gb, self.cfile, mains, os.path.join(RT, 'vp_rt.c'), os.path.join(RT, 'vp_sync.c')] + ['-D' + d for d in self.defines]
        r = sh(cmd)
        if r.returncode != 0:
            raise Inconclusive('goto-cc failed:\n' + r.stdout[-3000:])
        self.build_s += time.time() - t0
        return self


PROP_RE = re.compile(r'^\[(?P<id>[^\]]+)\] (?:line (?P<line>\d+) )?(?P<desc>.*): (?P<st>SUCCESS|FAILURE|UNKNOWN)\s*$')


class QueryResult:
    def __init__(self):
        self.props = []  # (id, desc, status)
        self.status = 'error'  # ok | violation | inconclusive | error
        self.violations = []  # (id, desc)
        self.inconclusive = []  # reasons
        self.witness_reached = 0
        self.witness_missing = []
        self.stats = {}
        self.wall_s = 0.0
        self.max_rss_mb = 0
        self.log = ''
        self.cmd = ''
        self.vacuous = False


def _limits(mem_gb):
    def f():
        b = int(mem_gb * (1 << 30))
        resource.setrlimit(resource.RLIMIT_AS, (b, b))
        os.setsid()
    return f


def run_cbmc(name, gb, entry, outdir, unwind=8, unwindset=(), timeout=300, mem_gb=12, extra=(), words=4096,
             trace_prop=None, witness='all'):
    os.makedirs(outdir, exist_ok=True)
    log = os.path.join(outdir, name + ('.trace' if trace_prop else '') + '.log')
    cmd = ['cbmc', gb, '--function', entry]
    cmd += ['--no-standard-checks', '--unwind', str(unwind), '--unwinding-assertions',
            '--drop-unused-functions', '--max-field-sensitivity-array-size', str(words + 8), '--verbosity', '8']
    rt_loops = ['vp_memset.0:34', 'vp_memset.1:130', 'vp_memcpy.0:34', 'vp_memcpy.1:130', 'vp_memcpy.2:130', 'vp_free.0:10',
                'vp_malloc.0:10', 'vp_malloc.1:66', 'vp_alloca.0:10', 'vp_alloca.1:66', 'vp_stack_restore.0:20',
                'vp_hb_thread_start.0:6', 'vp_hb_atomic.0:6', 'vp_hb_atomic.1:6', 'vp_hb_fence.0:6', 'vp_hb_fence.1:6']
    for u in rt_loops + list(unwindset):
        cmd += ['--unwindset', u]
    if trace_prop:
        cmd += ['--property', trace_prop, '--trace']
    cmd += list(extra)
    res = QueryResult()
    res.cmd = ' '.join(cmd)
    t0 = time.time()
    try:
        with open(log, 'w') as lf:
            p = subprocess.Popen(['/usr/bin/time', '-f', 'VP-RSS-KB %M'] + cmd, stdout=lf, stderr=subprocess.STDOUT,
                                 preexec_fn=_limits(mem_gb))
            try:
                p.wait(timeout=timeout)
            except subprocess.TimeoutExpired:
                try:
                    os.killpg(p.pid, 9)
                except ProcessLookupError:
                    pass
                p.wait()
                res.wall_s = time.time() - t0
                res.status = 'inconclusive'
                res.inconclusive.append('timeout after %ds' % timeout)
                res.log = log
                return res
    except OSError as e:
        res.status = 'error'
        res.inconclusive.append(str(e))
        return res
    res.wall_s = time.time() - t0
    res.log = log
    txt = open(log, errors='replace').read()
    m = re.search(r'VP-RSS-KB (\d+)', txt)
    if m:
        res.max_rss_mb = int(m.group(1)) // 1024
    for k, rx in (('steps', r'size of program expression: (\d+) steps'), ('vccs', r'Generated (\d+) VCC'),
                  ('vccs_remaining', r'(\d+) remaining after simplification'), ('variables', r'(\d+) variables'),
                  ('clauses', r'(\d+) clauses')):
        mm = re.findall(rx, txt)
        if mm:
            res.stats[k] = int(mm[-1])
    mm = re.findall(r'Runtime decision procedure: ([\d.]+)s', txt)
    if mm:
        res.stats['solver_s'] = round(sum(float(x) for x in mm), 3)
    for line in txt.split('\n'):
        m = PROP_RE.match(line.strip())
        if m:
            res.props.append((m.group('id'), m.group('desc'), m.group('st')))
    if 'VERIFICATION SUCCESSFUL' not in txt and 'VERIFICATION FAILED' not in txt:
        res.status = 'inconclusive'
        tail = [l for l in txt.strip().split('\n') if l.strip()][-3:]
        res.inconclusive.append('cbmc gave no verdict (rc=%s): %s' % (p.returncode, ' | '.join(tail)[-400:]))
        return res
    if re.search(r'no body for (function|callee) (\S+)', txt):
        nb = sorted(set(m.group(2) for m in re.finditer(r'no body for (function|callee) (\S+)', txt)))
        nb = [x for x in nb if not x.startswith('nondet_')]
        if nb:
            res.status = 'inconclusive'
            res.inconclusive.append('functions without body (unmodelled externals): ' + ', '.join(nb))
            return res
    seen_w = False
    for (pid, desc, st) in res.props:
        if desc.startswith('WITNESS'):
            seen_w = True
            if st == 'FAILURE':
                res.witness_reached += 1
            else:
                res.witness_missing.append(desc)
        elif st == 'FAILURE':
            if desc.startswith('VP-BOUND') or 'unwinding assertion' in desc or pid.endswith('.recursion'):
                res.inconclusive.append('bound insufficient: %s %s' % (pid, desc))
            else:
                res.violations.append((pid, desc))
        elif st == 'UNKNOWN':
            res.inconclusive.append('unknown: ' + desc)
    if res.violations:
        res.status = 'violation'
    elif res.inconclusive:
        res.status = 'inconclusive'
    elif (res.witness_missing and (witness == 'all' or res.witness_reached == 0)) or not seen_w:
        res.status = 'inconclusive'
        res.vacuous = True
        res.inconclusive.append('vacuous: witness not reachable: %s' % (res.witness_missing or 'no witness in harness'))
    else:
        res.status = 'ok'
    return res


def trace_inputs(logfile):
    """Extracts the harness-level nondet values (assignments to vp_nd_log) in order from a --trace log."""
    vals = []
    txt = open(logfile, errors='replace').read()
    for m in re.finditer(r'^\s*vp_nd_log=(\d+)ul?\b', txt, re.M):
        vals.append(int(m.group(1)))
    return vals


def parallel(jobs, fn, workers=14):
    out = [None] * len(jobs)
    with cf.ThreadPoolExecutor(max_workers=workers) as ex:
        futs = {ex.submit(fn, j): i for i, j in enumerate(jobs)}
        for f in cf.as_completed(futs):
            out[futs[f]] = f.result()
    return out


def load_known_findings():
    p = os.path.join(ROOT, 'known_findings.txt')
    known, fixed = [], []
    if os.path.exists(p):
        for line in open(p):
            line = line.strip()
            if not line or line.startswith('#'):
                continue
            if line.startswith('fixed:'):
                fixed.append(line)
            elif line.startswith('known:'):
                # known: property=Cxx key=<substring matched against "query | assertion">  -- text
                m = re.match(r'known:\s*property=(\S+)\s+key=(.*?)\s+--\s+(.*)$', line)
                if m:
                    known.append((m.group(1), m.group(2), m.group(3)))
    return known, fixed


def write_evidence(pid, ev):
    os.makedirs(os.path.join(ROOT, 'evidence'), exist_ok=True)
    p = os.path.join(ROOT, 'evidence', pid + '.json')
    json.dump(ev, open(p, 'w'), indent=1, sort_keys=True)
    return p


# ----------------------------------------------------------------------------------------------- entry generators
def decls(fns):
    return ''.join('void %s(void);\n' % f for f in sorted(set(fns)))


def threaded_entry(entry, prologue, threads, epilogue):
    """CBMC threads (Tier K): every interleaving of the thread bodies at the granularity of shared accesses."""
    s = ''.join('uint8_t %s_done%d;\n' % (entry, i + 1) for i in range(len(threads)))
    for i, t in enumerate(threads):
        s += 'void %s_t%d(void) { vp_set_thread(%d); %s(); %s_done%d = 1; }\n' % (entry, i + 1, i + 1, t, entry, i + 1)
    s += 'void %s(void) {\n  vp_init();\n  %s();\n' % (entry, prologue)
    for i, t in enumerate(threads):
        s += '  __CPROVER_ASYNC_%d: %s_t%d();\n' % (i + 1, entry, i + 1)
    s += '  __CPROVER_assume(%s);\n  %s();\n}\n' % (' && '.join('%s_done%d' % (entry, i + 1) for i in range(len(threads))), epilogue)
    return s


def unit_selector(units):
    """vp_unit_b(): the pending unit of a sequentialised schedule, selected by a per-query constant."""
    s = 'int vp_unit_sel;\nvoid vp_unit_b(void) {\n'
    for i, u in enumerate(units):
        s += '  if (vp_unit_sel == %d) { %s(); return; }\n' % (i + 1, u)
    s += '}\n'
    return s


def cube_entry(entry, prologue, outer, inner_index, k, epilogue, kmax, prologue_args='', spurious_at=-1, spurious_nondet=None):
    """Tier A: `inner` runs to completion at the k-th atomic operation of `outer` (k=-1: after it).  With k=-1 the query also
    proves that `outer` alone never performs more than kmax atomic operations, i.e. that the cubes 0..kmax-1 cover it."""
    # spurious weak-CAS failures make the number of atomic operations symbolic: they are explored in the k=none queries
    # (both sequential orders), the preemption cubes run without them
    if spurious_nondet is None:
        spurious_nondet = 1 if k < 0 else 0
    s = 'void %s(void) {\n  vp_spurious_cfg = %d; vp_spurious_at = %d;\n  vp_init();\n  %s(%s);\n  vp_unit_sel = %d; vp_pre_k = %d; vp_pre_enabled = 1;\n  %s();\n' % (
        entry, spurious_nondet, spurious_at, prologue, prologue_args, inner_index, k, outer)
    if k < 0:
        s += '  VP_ASSERT(vp_pre_count <= %d, "VP-BOUND: unit performs more atomic operations than there are preemption cubes");\n' % kmax
    s += '  vp_run_pending_unit();\n  vp_pre_enabled = 0;\n  %s();\n}\n' % epilogue
    return s


def native_lib_sources():
    """every library TU of the production configuration (current working tree), for native replay builds"""
    import glob
    out = []
    for d in ('algo', 'async', 'exe', 'lazy', 'runtime', 'util'):
        out += sorted(glob.glob(os.path.join(REPO, 'src', d, '*.cpp')))
    out.append(os.path.join(REPO, 'src', 'log.cpp'))
    return out
